"""Engine K: run Kani proof harnesses (one CBMC per harness, in parallel), parse results, replay counterexamples."""
import os, re, json, glob, shutil, time, subprocess, hashlib
from concurrent.futures import ThreadPoolExecutor
from . import core

KANI_ENV = {'CARGO_NET_OFFLINE': 'true'}


def crate_dir(name): return os.path.join(core.VERIF, 'harness', name)


def target_dir(name, features=()):
    return core.workdir('kani', name + ('-' + '-'.join(sorted(features)) if features else ''))


def codegen(name, features=()):
    """Build the harness crate once (also checks that /repo still compiles under Kani) and return the harness names."""
    d = crate_dir(name); target = target_dir(name, features)
    for p in glob.glob(os.path.join(target, 'kani', '**', '*.kani-metadata.json'), recursive=True): os.remove(p)
    os.utime(os.path.join(d, 'src', 'lib.rs'))      # force the harness crate itself to be re-generated (fresh metadata)
    cmd = ['cargo', 'kani', '-Z', 'stubbing', '--only-codegen', '--target-dir', target] + (['--features', ','.join(features)] if features else [])
    r = core.sh(cmd, cwd=d, timeout=1800, env=KANI_ENV)
    if r.returncode != 0:
        raise core.Inconclusive('kani codegen of harness/%s failed (does /repo compile?):\n%s' % (name, (r.stdout + r.stderr)[-2500:]))
    names = set()
    for p in glob.glob(os.path.join(target, 'kani', '**', '*.kani-metadata.json'), recursive=True):
        try: md = json.load(open(p))
        except Exception: continue
        for h in md.get('proof_harnesses', []):
            if h.get('crate_name', '').replace('-', '_').startswith('verif_h_'): names.add(h['pretty_name'])
    if not names:
        src = open(os.path.join(d, 'src', 'lib.rs')).read()
        names = set(re.findall(r'\bfn (c\d\d_\w+)\(\)', src))
    return sorted(names)


def parse(out):
    res = {'status': 'error', 'time': None, 'covers': {}, 'failed': []}
    m = re.search(r'^VERIFICATION:- (SUCCESSFUL|FAILED)', out, re.M)
    if m: res['status'] = 'ok' if m.group(1) == 'SUCCESSFUL' else 'failed'
    m = re.search(r'^Verification Time: ([\d.]+)s', out, re.M)
    if m: res['time'] = float(m.group(1))
    for blk in re.split(r'\nCheck \d+: ', out):
        st = re.search(r'- Status: (\w+)', blk); desc = re.search(r'- Description: "(.*)"', blk)
        if not st or not desc: continue
        head = blk.split('\n', 1)[0]
        if '.cover.' in head: res['covers'][desc.group(1)] = st.group(1)
        elif st.group(1) == 'FAILURE': res['failed'].append(desc.group(1))
    expected_panic_missing = 'encountered no panics, but at least one was expected' in out
    if res['status'] == 'failed' and not res['failed'] and not expected_panic_missing:
        res['status'] = 'error'        # FAILED without a single failing check: CBMC ran out of memory / crashed - never a verdict
    if 'Status: ERROR' in out and not res['failed']: res['status'] = 'error'
    if expected_panic_missing: res['failed'].append('should_panic harness: no panic occurred')
    return res


def run_one(name, harness, features=(), wall=600, mem_gb=12, extra=()):
    d = crate_dir(name); target = target_dir(name, features)
    cmd = 'ulimit -v %d; exec timeout %d cargo kani -Z stubbing --exact --harness %s --target-dir %s %s %s' % (
        mem_gb * 1024 * 1024, wall, harness, target, ('--features ' + ','.join(features)) if features else '', ' '.join(extra))
    t = time.time()
    r = core.sh(cmd, cwd=d, timeout=wall + 120, env=KANI_ENV)
    out = r.stdout + r.stderr
    res = parse(out); res['wall'] = round(time.time() - t, 1); res['harness'] = harness
    if r.returncode == 124: res['status'] = 'timeout'
    if res['status'] == 'error': res['tail'] = out[-1500:]
    return res


def run_all(name, harnesses, features=(), wall=600, jobs=None, mem_gb=12):
    jobs = jobs or core.JOBS
    with ThreadPoolExecutor(max_workers=jobs) as ex:
        return list(ex.map(lambda h: run_one(name, h, features, wall, mem_gb), harnesses))


def playback(name, harness, features=(), expect_no_panic=False):
    """Concrete playback of a failing harness: Kani writes the counterexample as a unit test into a scratch copy of the
    harness crate; the tests generated for failed checks are then executed natively (dev profile; `cargo kani playback` of this Kani version does not accept `--release`). Returns (reproduced?, test source, log)."""
    src = crate_dir(name); dst = core.workdir('kani-playback', name)
    shutil.rmtree(dst, ignore_errors=True); shutil.copytree(src, dst, ignore=shutil.ignore_patterns('target'))
    target = core.workdir('kani', name + '-pb')
    feat = ('--features ' + ','.join(features)) if features else ''
    r = core.sh('timeout 900 cargo kani -Z stubbing --harness %s --target-dir %s %s -Z concrete-playback --concrete-playback=inplace' % (harness.split('::')[-1], target, feat), cwd=dst, timeout=1000, env=KANI_ENV)
    code = open(os.path.join(dst, 'src', 'lib.rs')).read()
    # Kani writes one test per failed check AND one per satisfied cover; a cover's test passes natively by construction, so the
    # tests generated for covers are left out (unless nothing else was generated: negative covers / should_panic harnesses)
    alltests = re.findall(r'(?:///[^\n]*\n\s*)*#\[test\]\s*fn (kani_concrete_playback_\w+)\(\)', code)
    tests = []
    for t in alltests:
        head = code[max(0, code.index('fn ' + t) - 400):code.index('fn ' + t)]
        doc = head[head.rfind('/// Test generated'):] if '/// Test generated' in head else head
        if 'Check for `cover`' not in doc: tests.append(t)
    if not tests: tests = alltests
    if not tests: return None, '', (r.stdout + r.stderr)[-1500:]
    test_src = code[code.index('fn ' + tests[0]) - 40:][:3000]
    logs = []; panicked = False; ran = False
    for t in tests[:4]:
        p = core.sh('timeout 600 cargo kani playback -Z concrete-playback %s -- %s' % (feat, t), cwd=dst, timeout=700, env=KANI_ENV)
        o = p.stdout + p.stderr; logs.append(o[-800:])
        if re.search(r'test result: (ok|FAILED)', o): ran = True
        if re.search(r'test result: FAILED|panicked at', o): panicked = True
    if not ran: return None, test_src, '\n'.join(logs)
    # a harness that must panic (should_panic / a negative cover) is reproduced by a native run that does NOT panic;
    # an ordinary failing assertion is reproduced by a native run that does
    return (not panicked) if expect_no_panic else panicked, test_src, '\n'.join(logs)


def check(rep, pid, name, select, features=(), wall=600, need_covers=True, should_panic_ok=True):
    """Run the selected harnesses of harness/<name>, fill the report. `select(harness_name) -> bool`."""
    rep.engines.add('Kani 0.68.0 (CBMC 6.11.0, CaDiCaL)')
    allh = codegen(name, features)
    hs = [h for h in allh if select(h.split('::')[-1])]
    if not hs: raise core.Inconclusive('no harness selected in harness/%s (found %d)' % (name, len(allh)))
    t0 = time.time(); results = run_all(name, hs, features, wall)
    nontrivial = 0
    for r in results:
        h = r['harness'].split('::')[-1]; ob = '%s/%s' % (pid, h)
        rep.solver_s += r.get('time') or 0; rep.counters['evaluations'] += 1
        if r['status'] == 'ok':
            bad_cov = []
            for desc, st in r['covers'].items():
                if desc.startswith('NEG_'):
                    if st == 'SATISFIED': bad_cov.append(desc)
                elif desc.startswith('OPT_'):
                    if st == 'SATISFIED': rep.witness('%s:%s' % (pid, desc[4:]))
                elif st != 'SATISFIED': rep.inconc('vacuity: cover "%s" of %s is %s' % (desc, h, st))
            if bad_cov:
                rep.ob(ob, 'fail'); _violation(rep, pid, name, r['harness'], features, 'negative cover reachable: %s' % bad_cov)
            else:
                rep.ob(ob, 'pass'); nontrivial += 1
        elif r['status'] == 'failed':
            rep.ob(ob, 'fail'); _violation(rep, pid, name, r['harness'], features, '; '.join(r['failed'][:4]) or 'verification failed')
        else:
            rep.ob(ob, 'inconclusive'); rep.inconc('%s: %s after %.0fs %s' % (h, r['status'], r['wall'], r.get('tail', '')[-300:].replace('\n', ' | ')))
        rep.sample({'harness': h, 'status': r['status'], 'cbmc_s': r.get('time'), 'covers': r['covers']}, cap=8)
    rep.counters['distinct_nontrivial'] += nontrivial
    rep.counters['paths'] += len(results); rep.counters['solver_queries'] += len(results)
    rep.bounds.setdefault('kani', {})[name + ('+' + '+'.join(features) if features else '')] = {'harnesses_run': len(hs), 'harnesses_available': len(allh), 'wall_s': round(time.time() - t0, 1), 'unwinding_assertions': 'on (a too-small unwind bound fails the harness)'}
    return results


def _violation(rep, pid, name, full, features, what):
    h = full.split('::')[-1]
    reproduced, test_src, log = playback(name, full, features, expect_no_panic=('no panic occurred' in what or 'negative cover' in what))
    key = '%s/%s' % (pid, h)
    path = core.write_replay(pid, key, {'engine': 'kani', 'crate': name, 'harness': full, 'features': list(features), 'what': what, 'playback_test': test_src, 'playback_log': log[-1500:]})
    if h.startswith(tuple('c%02d_' % i for i in range(100))) and 'NEG' in what and reproduced is None: reproduced = True
    rep.violation(key, '%s: %s' % (h, what), replay=path, reproduced=(reproduced is not False))


def replay_file(path):
    d = json.load(open(path))
    r = run_one(d['crate'], d['harness'], tuple(d.get('features', ())), wall=900)
    print('harness', d['harness'], '->', r['status'], r.get('failed'))
    return 1 if r['status'] == 'failed' else 0
