"""Entry point: ./check <ID> [--tier quick|thorough] [--replay FILE]"""
import sys, os, argparse, importlib, traceback
sys.path.insert(0, os.path.dirname(os.path.dirname(os.path.abspath(__file__))))
sys.path.insert(0, os.path.join(os.path.dirname(os.path.dirname(os.path.abspath(__file__))), 'mirsym'))
from vlib import core


def main():
    ap = argparse.ArgumentParser()
    ap.add_argument('pid', nargs='?')
    ap.add_argument('--tier', default=os.environ.get('VERIF_TIER', 'quick'), choices=['quick', 'thorough'])
    ap.add_argument('--replay')
    ap.add_argument('--setup', action='store_true')
    ap.add_argument('--selftest', action='store_true')
    a = ap.parse_args()
    seed = int(os.environ.get('VERIF_SEED', '0') or 0)
    if a.setup:
        from vlib import setup
        sys.exit(setup.run())
    if a.selftest:
        from vlib import selftest
        sys.exit(selftest.run())
    pid = a.pid.upper()
    mod = importlib.import_module('props.' + pid.lower())
    if a.replay:
        sys.exit(mod.replay(a.replay))
    rep = core.Report(pid, a.tier, seed)
    try:
        mod.run(rep, a.tier, seed)
    except core.Inconclusive as e:
        rep.inconc(str(e))
    except Exception as e:
        traceback.print_exc()
        rep.inconc('internal error: %r' % (e,))
    sys.exit(rep.finish())


if __name__ == '__main__':
    main()
