"""MIR dumps of repository crates and mount crates, regenerated from /repo's current sources on every run."""
import os, glob, shutil, fcntl
from . import core

RUSTFLAGS_MIR = ['-Zunpretty=mir', '-C', 'debug-assertions=off', '-C', 'overflow-checks=on']


def _dump(cwd, pkg, target, features=None, extra_env=None, lib=True):
    """Run `cargo +nightly rustc -p pkg -- -Zunpretty=mir` and return the MIR text. The crate's fingerprint is
    removed first so that the compiler really runs (its stdout *is* the dump)."""
    os.makedirs(target, exist_ok=True)
    lock = open(os.path.join(target, '.verif-lock'), 'w')
    fcntl.flock(lock, fcntl.LOCK_EX)
    try:
        for d in glob.glob(os.path.join(target, 'debug', '.fingerprint', pkg + '-*')):
            shutil.rmtree(d, ignore_errors=True)
        cmd = ['cargo', '+nightly', 'rustc', '--offline', '-p', pkg, '--target-dir', target]
        if lib: cmd.append('--lib')
        if features is not None:
            cmd += ['--no-default-features']
            if features: cmd += ['--features', ','.join(features)]
        cmd += ['--'] + RUSTFLAGS_MIR
        r = core.sh(cmd, cwd=cwd, timeout=900, env=extra_env)
    finally:
        fcntl.flock(lock, fcntl.LOCK_UN); lock.close()
    if r.returncode != 0 or 'fn ' not in r.stdout:
        raise core.Inconclusive('MIR dump of %s failed (does /repo still compile?):\n%s' % (pkg, r.stderr[-2500:]))
    return r.stdout


def repo_crate(pkg, features=None):
    """MIR of a crate of the /repo workspace, compiled in place (target dir outside /repo)."""
    return _dump(core.REPO, pkg, core.workdir('mir-target'), features)


def mount_crate(name, features=None):
    """MIR of a mount crate under /verif/mount/<name> (its modules are #[path]-mounted files of /repo)."""
    d = os.path.join(core.VERIF, 'mount', name)
    pkg = open(os.path.join(d, 'Cargo.toml')).read().split('name = "')[1].split('"')[0]
    return _dump(d, pkg, core.workdir('mount-target', name), features)


def dep_of_mount(mount, pkg):
    """MIR of a /repo package compiled as a dependency inside a mount workspace (i.e. against the model crates that the
    workspace patches in), e.g. the real actix-tls built against the model tokio-rustls."""
    d = os.path.join(core.VERIF, 'mount', mount)
    return _dump(d, pkg, core.workdir('mount-target', mount))
