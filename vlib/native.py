"""Native (real code, real std) replay / differential-validation binaries under /verif/replay/<name>."""
import os
from . import core


def build(name, release=True, features=None, timeout=1200):
    d = os.path.join(core.VERIF, 'replay', name)
    target = core.workdir('replay-target', name)
    cmd = ['cargo', 'build', '--offline', '--target-dir', target] + (['--release'] if release else [])
    if features: cmd += ['--features', ','.join(features)]
    r = core.sh(cmd, cwd=d, timeout=timeout)
    if r.returncode != 0:
        raise core.Inconclusive('native build of replay/%s failed:\n%s' % (name, r.stderr[-2500:]))
    pkg = open(os.path.join(d, 'Cargo.toml')).read().split('name = "')[1].split('"')[0]
    return os.path.join(target, 'release' if release else 'debug', pkg)


def run_lines(binary, lines, timeout=300):
    r = core.sh([binary], input='\n'.join(lines) + '\n', timeout=timeout)
    if r.returncode != 0:
        raise core.Inconclusive('native replay binary failed: %s' % r.stderr[-1500:])
    return r.stdout.rstrip('\n').split('\n')
