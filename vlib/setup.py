"""./check --setup : build what can be built ahead of time (native replay binaries, model crates). Everything is
also rebuilt on demand by the checks themselves, so a failing or skipped setup only costs time later."""
import os, glob
from . import core, native


def run():
    core.workdir()
    ok = True
    for d in sorted(glob.glob(os.path.join(core.VERIF, 'replay', '*', 'Cargo.toml'))):
        name = os.path.basename(os.path.dirname(d))
        try:
            native.build(name); print('[setup] built replay/%s' % name)
        except core.Inconclusive as e:
            ok = False; print('[setup] replay/%s: %s' % (name, str(e)[:800]))
    print('[setup] done' if ok else '[setup] done with build problems (checks will report them)')
    return 0
