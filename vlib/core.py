"""Driver library shared by all property checks: paths, reports, evidence, known findings."""
import json, os, sys, time, subprocess, hashlib, random

VERIF = os.path.dirname(os.path.dirname(os.path.abspath(__file__)))
REPO = os.environ.get('ACTIX_NET_REPO', '/repo')
WORK = os.environ.get('VERIF_WORK', '/var/tmp/actix-net-verif')
JOBS = int(os.environ.get('VERIF_JOBS', '14'))

ENV = dict(os.environ)
ENV.update({'CARGO_NET_OFFLINE': 'true', 'ACTIX_NET_REPO': REPO, 'VERIF_WORK': WORK})
ENV.pop('RUSTUP_TOOLCHAIN', None)


def workdir(*parts):
    p = os.path.join(WORK, *parts)
    os.makedirs(p, exist_ok=True)
    return p


def sh(cmd, cwd=None, timeout=None, env=None, check=False, input=None):
    e = dict(ENV)
    if env: e.update(env)
    r = subprocess.run(cmd, cwd=cwd, shell=isinstance(cmd, str), capture_output=True, text=True,
                       timeout=timeout, env=e, input=input)
    if check and r.returncode != 0:
        raise RuntimeError('command failed (%d): %s\n%s\n%s' % (r.returncode, cmd, r.stdout[-3000:], r.stderr[-3000:]))
    return r


class Inconclusive(Exception):
    """The machinery could not decide (unknown callee, timeout, build failure...). Never a pass, never an alarm."""


def load_known():
    p = os.path.join(VERIF, 'known_findings.json')
    if not os.path.exists(p): return []
    return json.load(open(p)).get('findings', [])


class Report:
    """Collects what one run of one property check did; writes evidence; decides the exit code."""

    def __init__(self, pid, tier, seed, level='model_checking'):
        self.pid, self.tier, self.seed, self.level = pid, tier, seed, level
        self.t0 = time.time()
        self.obligations = {}        # name -> dict(status=pass|fail|inconclusive, detail=..., n=queries)
        self.violations = []         # dict(key, what, replay, reproduced)
        self.inconclusive = []       # strings
        self.samples = []
        self.functions = set()
        self.bounds = {}
        self.models = set()
        self.assumptions = []
        self.counters = {'states': 0, 'transitions': 0, 'paths': 0, 'solver_queries': 0, 'traces_validated_against_impl': 0,
                         'evaluations': 0, 'distinct_nontrivial': 0}
        self.solver_s = 0.0
        self.witnesses = {}          # reachability witnesses: name -> count (0 => vacuity failure)
        self.extra = {}
        self.engines = set()

    # ---- recording
    def ob(self, name, status='pass', **kw):
        o = self.obligations.setdefault(name, {'status': 'pass', 'n': 0})
        o['n'] += kw.pop('n', 1)
        rank = {'pass': 0, 'inconclusive': 1, 'fail': 2}
        if rank[status] > rank[o['status']]: o['status'] = status
        o.update(kw)

    def witness(self, name, n=1):
        self.witnesses[name] = self.witnesses.get(name, 0) + n

    def need_witness(self, *names):
        for n in names: self.witnesses.setdefault(n, 0)

    def violation(self, key, what, replay=None, reproduced=None, data=None):
        for v in self.violations:
            if v['key'] == key: return v
        v = {'key': key, 'what': what, 'replay': replay, 'reproduced': reproduced, 'data': data}
        self.violations.append(v)
        return v

    def inconc(self, why):
        if why not in self.inconclusive: self.inconclusive.append(why)

    def sample(self, s, cap=12):
        if len(self.samples) < cap: self.samples.append(s)

    def merge_stats(self, st):
        for k, v in st.items():
            if isinstance(v, (int, float)) and k in self.counters: self.counters[k] += v

    # ---- verdict
    def finish(self):
        known = [k for k in load_known() if k.get('property') == self.pid]
        known_keys = {k['key']: k for k in known if k.get('status') == 'known'}
        new, seen_known, unrepro = [], [], []
        for v in self.violations:
            if v.get('reproduced') is False:
                unrepro.append(v); continue
            if v['key'] in known_keys: seen_known.append(v)
            else: new.append(v)
        for v in unrepro:
            self.inconc('counterexample did not reproduce natively (encoding suspect): ' + v['key'])
        vac = [n for n, c in self.witnesses.items() if c == 0]
        for n in vac: self.inconc('vacuity: witness never reached: ' + n)
        wall = time.time() - self.t0
        nob = len(self.obligations)
        ndis = sum(1 for o in self.obligations.values() if o['status'] == 'pass')
        cov = dict(self.counters)
        cov['states'] = max(cov['states'], cov['paths'])
        cov['transitions'] = max(cov['transitions'], 0)
        if cov['evaluations'] == 0: cov['evaluations'] = max(cov['paths'], nob)
        if cov['distinct_nontrivial'] == 0: cov['distinct_nontrivial'] = max(cov['states'], ndis)
        cov.update({
            'obligations': nob, 'discharged': ndis,
            'obligation_detail': {k: {'status': v['status'], 'queries': v['n'], **({'detail': v['detail']} if 'detail' in v else {})}
                                  for k, v in sorted(self.obligations.items())},
            'samples': self.samples or ['(no sample recorded)'],
            'functions_encoded': sorted(self.functions),
            'bounds': self.bounds,
            'models_and_stubs': sorted(self.models),
            'solver_s': round(self.solver_s, 2),
            'engines': sorted(self.engines),
            'witnesses': self.witnesses,
            'inconclusive': self.inconclusive,
            'known_findings_seen': [v['key'] for v in seen_known],
            'new_violations': [{'key': v['key'], 'what': v['what'], 'replay': v['replay']} for v in new],
            'rule': 'one case = one explored symbolic path (engine S) or one solver-decided harness (engine K); non-trivial = reached at least one property assertion with symbolic inputs',
            'exhaustive': False,
        })
        cov.update(self.extra)
        if cov['states'] < 1: cov['states'] = 1
        if cov['transitions'] < 1: cov['transitions'] = max(1, cov['solver_queries'])
        ev = {'property_id': self.pid, 'tier': self.tier, 'seed': self.seed, 'level': self.level, 'coverage': cov,
              'assumptions': self.assumptions, 'wall_s': round(wall, 2), 'violations': len(new)}
        os.makedirs(os.path.join(VERIF, 'evidence'), exist_ok=True)
        with open(os.path.join(VERIF, 'evidence', self.pid + '.json'), 'w') as f:
            json.dump(ev, f, indent=1, default=str)
        for v in seen_known:
            print('KNOWN-FINDING: property=%s %s -- %s' % (self.pid, v['key'], known_keys[v['key']].get('what', v['what'])))
        for v in new:
            print('VIOLATION property=%s replay=%s' % (self.pid, v['replay']))
            print('  key: %s\n  what: %s' % (v['key'], v['what']))
        print('[%s %s] obligations %d discharged %d paths %d queries %d solver %.1fs wall %.1fs inconclusive %d' %
              (self.pid, self.tier, nob, ndis, self.counters['paths'], self.counters['solver_queries'], self.solver_s, wall, len(self.inconclusive)))
        for w in self.inconclusive: print('INCONCLUSIVE: ' + w)
        if new: return 1
        if self.inconclusive: return 2
        return 0


def write_replay(pid, key, payload):
    d = workdir('replays', pid)
    h = hashlib.sha1(key.encode()).hexdigest()[:10]
    p = os.path.join(d, h + '.json')
    with open(p, 'w') as f: json.dump({'property': pid, 'key': key, **payload}, f, indent=1, default=str)
    return p
