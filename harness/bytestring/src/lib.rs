//! Kani harnesses for C20 (ByteString is always valid UTF-8 and agrees with str). Real bytestring on the real `bytes`.
//! One harness per concrete length N (contents fully symbolic: all 256 byte values) - symbolic lengths reaching heap
//! types blow CBMC up (DESIGN.md §2).
#![allow(unused)]
#[cfg(kani)]
mod h {
    use bytes::{Bytes, BytesMut};
    use bytestring::ByteString;
    use core::hash::{Hash, Hasher};

    /// Independent reference UTF-8 validator (RFC 3629 table), so that a change weakening both ByteString and
    /// `str::from_utf8` alike would still be noticed.
    fn ref_utf8(b: &[u8]) -> bool {
        let n = b.len(); let mut i = 0;
        while i < n {
            let c = b[i];
            let (len, lo, hi) = match c {
                0x00..=0x7f => (1, 0x80, 0xbf),
                0xc2..=0xdf => (2, 0x80, 0xbf),
                0xe0 => (3, 0xa0, 0xbf),
                0xe1..=0xec | 0xee..=0xef => (3, 0x80, 0xbf),
                0xed => (3, 0x80, 0x9f),
                0xf0 => (4, 0x90, 0xbf),
                0xf1..=0xf3 => (4, 0x80, 0xbf),
                0xf4 => (4, 0x80, 0x8f),
                _ => return false,
            };
            if i + len > n { return false; }
            if len >= 2 && !(b[i + 1] >= lo && b[i + 1] <= hi) { return false; }
            let mut k = 2;
            while k < len { if b[i + k] & 0xc0 != 0x80 { return false; } k += 1; }
            i += len;
        }
        true
    }

    struct RecHasher(u64, u64);
    impl Hasher for RecHasher {
        fn finish(&self) -> u64 { self.0 ^ self.1 }
        fn write(&mut self, bytes: &[u8]) { let mut i = 0; while i < bytes.len() { self.0 = self.0.wrapping_mul(31).wrapping_add(bytes[i] as u64); self.1 += 1; i += 1; } }
    }

    fn same(a: &[u8], b: &[u8]) -> bool { if a.len() != b.len() { return false; } let mut i = 0; while i < a.len() { if a[i] != b[i] { return false; } i += 1; } true }

    macro_rules! ctor {
        ($name:ident, $n:expr, $mk:expr) => {
            #[kani::proof]
            #[kani::unwind(8)]
            fn $name() {
                let b: [u8; $n] = kani::any();
                let std_ok = core::str::from_utf8(&b).is_ok();
                let ref_ok = ref_utf8(&b);
                assert!(std_ok == ref_ok, "reference validator and str::from_utf8 disagree");
                let r: Result<ByteString, _> = ($mk)(b);
                assert!(r.is_ok() == ref_ok, "constructor accepts exactly the valid UTF-8 sequences");
                kani::cover!(r.is_ok(), "accepted");
                kani::cover!(r.is_err() || $n == 0, "rejected");
                if let Ok(s) = r {
                    assert!(same(s.as_bytes(), &b), "content preserved");
                    assert!(ref_utf8(s.as_bytes()), "holds valid UTF-8");
                    let st: &str = &s;
                    assert!(same(st.as_bytes(), &b), "deref agrees");
                    core::mem::forget(s);
                }
            }
        };
    }
    macro_rules! ctors {
        ($n:expr, $a:ident, $b:ident, $c:ident, $d:ident, $e:ident, $f:ident) => {
            ctor!($a, $n, |b: [u8; $n]| ByteString::try_from(&b[..]));
            ctor!($b, $n, |b: [u8; $n]| ByteString::try_from(b));
            ctor!($c, $n, |b: [u8; $n]| ByteString::try_from(&b));
            ctor!($d, $n, |b: [u8; $n]| ByteString::try_from(Bytes::copy_from_slice(&b)));
            ctor!($e, $n, |b: [u8; $n]| ByteString::try_from(BytesMut::from(&b[..])));
            ctor!($f, $n, |b: [u8; $n]| ByteString::try_from(b.to_vec()));
        };
    }
    ctors!(0, c20_ctor_slice_0, c20_ctor_array_0, c20_ctor_arrayref_0, c20_ctor_bytes_0, c20_ctor_bytesmut_0, c20_ctor_vec_0);
    ctors!(1, c20_ctor_slice_1, c20_ctor_array_1, c20_ctor_arrayref_1, c20_ctor_bytes_1, c20_ctor_bytesmut_1, c20_ctor_vec_1);
    ctors!(2, c20_ctor_slice_2, c20_ctor_array_2, c20_ctor_arrayref_2, c20_ctor_bytes_2, c20_ctor_bytesmut_2, c20_ctor_vec_2);
    ctors!(3, c20_ctor_slice_3, c20_ctor_array_3, c20_ctor_arrayref_3, c20_ctor_bytes_3, c20_ctor_bytesmut_3, c20_ctor_vec_3);
    ctors!(4, c20_ctor_slice_4, c20_ctor_array_4, c20_ctor_arrayref_4, c20_ctor_bytes_4, c20_ctor_bytesmut_4, c20_ctor_vec_4);
    #[cfg(feature = "thorough")]
    ctors!(5, c20_ctor_slice_5, c20_ctor_array_5, c20_ctor_arrayref_5, c20_ctor_bytes_5, c20_ctor_bytesmut_5, c20_ctor_vec_5);

    fn is_boundary(b: &[u8], mid: usize) -> bool { mid == 0 || mid == b.len() || (mid < b.len() && (b[mid] as i8) >= -0x40) }

    macro_rules! split {
        ($ok:ident, $bad:ident, $n:expr, $mid:expr) => {
            /// split_at at a char boundary: no panic, halves are the two halves of the str
            #[kani::proof]
            #[kani::unwind(8)]
            fn $ok() {
                let b: [u8; $n] = kani::any();
                kani::assume(ref_utf8(&b));
                kani::assume(is_boundary(&b, $mid));
                let s = ByteString::try_from(&b[..]).unwrap();
                let (x, y) = s.split_at($mid);
                assert!(same(x.as_bytes(), &b[..$mid]) && same(y.as_bytes(), &b[$mid..]), "halves agree with str::split_at");
                assert!(ref_utf8(x.as_bytes()) && ref_utf8(y.as_bytes()), "both halves hold valid UTF-8");
                kani::cover!(true, "split_ok");
                core::mem::forget((s, x, y));
            }
            /// split_at off a char boundary (or past the end): must panic, exactly like str::split_at
            #[kani::proof]
            #[kani::unwind(8)]
            #[kani::should_panic]
            fn $bad() {
                let b: [u8; $n] = kani::any();
                kani::assume(ref_utf8(&b));
                kani::assume(!is_boundary(&b, $mid));
                let s = ByteString::try_from(&b[..]).unwrap();
                let r = s.split_at($mid);
                kani::cover!(true, "NEG_returned_normally");
                core::mem::forget((s, r));
            }
        };
    }
    split!(c20_split_ok_2_1, c20_split_bad_2_1, 2, 1);
    split!(c20_split_ok_3_1, c20_split_bad_3_1, 3, 1);
    split!(c20_split_ok_3_2, c20_split_bad_3_2, 3, 2);
    split!(c20_split_ok_4_2, c20_split_bad_4_2, 4, 2);
    split!(c20_split_ok_4_3, c20_split_bad_4_3, 4, 3);

    #[kani::proof]
    #[kani::unwind(8)]
    #[kani::should_panic]
    fn c20_split_past_end_3() {
        let b: [u8; 3] = kani::any();
        kani::assume(ref_utf8(&b));
        let s = ByteString::try_from(&b[..]).unwrap();
        let r = s.split_at(4);
        kani::cover!(true, "NEG_returned_normally");
        core::mem::forget((s, r));
    }

    /// comparison, hashing and conversion back agree with the same operation on the equivalent str
    #[kani::proof]
    #[kani::unwind(8)]
    fn c20_eq_cmp_hash_3() {
        let a: [u8; 3] = kani::any(); let b: [u8; 3] = kani::any();
        kani::assume(ref_utf8(&a) && ref_utf8(&b));
        let x = ByteString::try_from(&a[..]).unwrap(); let y = ByteString::try_from(&b[..]).unwrap();
        let (sx, sy) = (core::str::from_utf8(&a).unwrap(), core::str::from_utf8(&b).unwrap());
        assert!((x == y) == (sx == sy), "Eq agrees with str");
        assert!((x == *sy) == (sx == sy), "PartialEq<str> agrees");
        assert!(x.cmp(&y) == sx.cmp(sy), "Ord agrees with str");
        let mut h1 = RecHasher(7, 0); let mut h2 = RecHasher(7, 0);
        x.hash(&mut h1); sx.hash(&mut h2);
        assert!(h1.finish() == h2.finish(), "Hash agrees with str");
        kani::cover!(x == y, "equal pair"); kani::cover!(x != y, "different pair");
        core::mem::forget((x, y));
    }

    /// ... for strings of DIFFERENT lengths too (a shorter string can be the greater one: "b" > "ab")
    fn cmp_lengths<const N: usize, const M: usize>() {
        let a: [u8; N] = kani::any(); let b: [u8; M] = kani::any();
        kani::assume(ref_utf8(&a) && ref_utf8(&b));
        let x = ByteString::try_from(&a[..]).unwrap(); let y = ByteString::try_from(&b[..]).unwrap();
        let (sx, sy) = (core::str::from_utf8(&a).unwrap(), core::str::from_utf8(&b).unwrap());
        assert!(x.cmp(&y) == sx.cmp(sy) && y.cmp(&x) == sy.cmp(sx), "Ord agrees with str");
        assert!(x.partial_cmp(&y) == sx.partial_cmp(sy), "PartialOrd agrees with str");
        assert!((x == y) == (sx == sy) && (x < y) == (sx < sy), "Eq / < agree with str");
        kani::cover!(sx > sy, "the shorter or longer string is the greater one");
        core::mem::forget((x, y));
    }
    #[kani::proof] #[kani::unwind(8)] fn c20_cmp_lengths_2_1() { cmp_lengths::<2, 1>() }
    #[kani::proof] #[kani::unwind(8)] fn c20_cmp_lengths_1_3() { cmp_lengths::<1, 3>() }

    /// slice_ref of any sub-slice of the string gives that sub-slice
    #[kani::proof]
    #[kani::unwind(8)]
    fn c20_slice_ref_3() {
        let a: [u8; 3] = kani::any();
        kani::assume(ref_utf8(&a));
        let lo: usize = kani::any(); let hi: usize = kani::any();
        kani::assume(lo <= hi && hi <= 3 && is_boundary(&a, lo) && is_boundary(&a, hi));
        let x = ByteString::try_from(Bytes::copy_from_slice(&a)).unwrap();
        let sub: &str = &x[lo..hi];
        let y = x.slice_ref(sub);
        assert!(same(y.as_bytes(), &a[lo..hi]), "slice_ref agrees with str slicing");
        kani::cover!(hi - lo == 2, "two byte slice");
        core::mem::forget((x, y));
    }
}
