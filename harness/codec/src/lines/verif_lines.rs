//! C15 - LinesCodec frames lines exactly. One harness per total length N, bytes fully symbolic (all 256 values).
use super::*;
use crate::util::{ref_utf8, same};

fn first_nl(b: &[u8]) -> usize { let mut i = 0; while i < b.len() { if b[i] == b'\n' { return i; } i += 1; } b.len() }

fn decode_n<const N: usize>() {
    let buf: [u8; N] = kani::any();
    let mut src = BytesMut::with_capacity(16);
    src.extend_from_slice(&buf);
    let mut c = LinesCodec::default();
    let r = c.decode(&mut src);
    let pos = first_nl(&buf);
    let mut end = pos;
    if pos < N && end > 0 && buf[end - 1] == b'\r' { end -= 1; }
    match r {
        Ok(None) => { assert!(pos == N, "None exactly when there is no newline"); assert!(src.len() == N, "nothing consumed"); }
        Ok(Some(s)) => {
            assert!(pos < N, "a line needs a newline");
            assert!(same(s.as_bytes(), &buf[..end]), "line = bytes before the first newline minus one trailing CR");
            assert!(ref_utf8(&buf[..end]), "only valid UTF-8 becomes a String");
            assert!(src.len() == N - pos - 1 && same(&src, &buf[pos + 1..]), "consumed exactly up to and including the newline");
            kani::cover!(end < pos, "OPT_CR stripped");
            core::mem::forget(s);
        }
        Err(e) => {
            assert!(pos < N && !ref_utf8(&buf[..end]), "error exactly for an invalid UTF-8 line");
            assert!(e.kind() == io::ErrorKind::InvalidData);
            core::mem::forget(e);
        }
    }
    kani::cover!(pos < N && ref_utf8(&buf[..end]), "OPT_valid line");
    kani::cover!(N == 0 || pos == N, "no newline");
    core::mem::forget(src);
}
/// a run of K carriage returns before the newline: exactly ONE is stripped. The shape of the input is fixed (so every loop in
/// the decoder has a concrete trip count and a data-dependent loop in a changed decoder stays decidable), the bytes around it
/// are symbolic: [x] CR^K LF [y]  ->  line = [x] CR^(K-1), remainder = [y]
/// stub for the CR-run harnesses: the bytes are ASCII by construction, so the UTF-8 check (whose error path dominates the cost of
/// a symbolic-length buffer) is replaced by the unchecked conversion; the UTF-8 behaviour itself is the subject of c15_decode_N
fn ascii_into_string(buf: Bytes) -> io::Result<Option<String>> { Ok(Some(unsafe { String::from_utf8_unchecked(buf.to_vec()) })) }
fn decode_cr_run<const K: usize>() {
    // x ranges over two ASCII bytes only (an if-then-else of constants folds away in every comparison with CR / LF)
    let x: u8 = if kani::any() { b'a' } else { 0x7f }; let y: u8 = kani::any();
    let mut buf = [b'\r'; 8];
    buf[0] = x; buf[1 + K] = b'\n'; buf[2 + K] = y;
    let n = K + 3;
    let mut src = BytesMut::with_capacity(16);
    src.extend_from_slice(&buf[..n]);
    let mut c = LinesCodec::default();
    match c.decode(&mut src) {
        Ok(Some(s)) => {
            assert!(s.len() == K, "line = bytes before the first newline minus ONE trailing CR");
            let b = s.as_bytes(); assert!(b[0] == x, "first byte kept");
            let mut i = 1; while i < K { assert!(b[i] == b'\r', "the other carriage returns belong to the line"); i += 1; }
            assert!(src.len() == 1 && src[0] == y, "consumed exactly up to and including the newline");
            kani::cover!(true, "line with a run of carriage returns");
            core::mem::forget(s);
        }
        _ => assert!(false, "an ASCII line followed by a newline decodes to a line"),
    }
    core::mem::forget(src);
}
#[kani::proof] #[kani::unwind(10)] #[kani::stub(crate::lines::try_into_utf8, ascii_into_string)] fn c15_decode_cr_run_1() { decode_cr_run::<1>() }
#[kani::proof] #[kani::unwind(10)] #[kani::stub(crate::lines::try_into_utf8, ascii_into_string)] fn c15_decode_cr_run_2() { decode_cr_run::<2>() }
#[kani::proof] #[kani::unwind(10)] #[kani::stub(crate::lines::try_into_utf8, ascii_into_string)] fn c15_decode_cr_run_3() { decode_cr_run::<3>() }
#[kani::proof] #[kani::unwind(10)] fn c15_decode_0() { decode_n::<0>() }
#[kani::proof] #[kani::unwind(10)] fn c15_decode_1() { decode_n::<1>() }
#[kani::proof] #[kani::unwind(10)] fn c15_decode_2() { decode_n::<2>() }
#[kani::proof] #[kani::unwind(10)] fn c15_decode_3() { decode_n::<3>() }
#[cfg(feature = "thorough")] #[kani::proof] #[kani::unwind(10)] fn c15_decode_4() { decode_n::<4>() }
#[cfg(feature = "thorough")] #[kani::proof] #[kani::unwind(10)] fn c15_decode_5() { decode_n::<5>() }

/// end of stream: a trailing unterminated non-empty line (minus one CR), then None
fn eof_n<const N: usize>() {
    let buf: [u8; N] = kani::any();
    kani::assume(first_nl(&buf) == N);
    let mut src = BytesMut::with_capacity(16);
    src.extend_from_slice(&buf);
    let mut c = LinesCodec::default();
    let r = c.decode_eof(&mut src);
    let mut end = N;
    if end > 0 && buf[end - 1] == b'\r' { end -= 1; }
    match r {
        Ok(None) => assert!(end == 0, "None only if nothing (but a lone CR) is left"),
        Ok(Some(s)) => { assert!(end > 0 && same(s.as_bytes(), &buf[..end]) && ref_utf8(&buf[..end])); core::mem::forget(s); }
        Err(e) => { assert!(end > 0 && !ref_utf8(&buf[..end])); core::mem::forget(e); }
    }
    kani::cover!(end > 0 && ref_utf8(&buf[..end]), "OPT_trailing line");
    core::mem::forget(src);
}
/// a trailing, unterminated line that is not valid UTF-8 is an error at end of stream (fixed shape: [x] 0xFF, and a lone lead byte 0xC3,
/// so that a changed conversion with data-dependent loops stays decidable)
#[kani::proof] #[kani::unwind(10)]
fn c15_eof_invalid_tail() {
    let x: u8 = if kani::any() { b'a' } else { b'z' };
    let bad: u8 = if kani::any() { 0xFF } else { 0xC3 };
    let mut src = BytesMut::with_capacity(16);
    src.extend_from_slice(&[x, bad]);
    let mut c = LinesCodec::default();
    match c.decode_eof(&mut src) {
        Err(e) => { assert!(e.kind() == io::ErrorKind::InvalidData, "invalid UTF-8 in the trailing line is InvalidData"); kani::cover!(true, "invalid tail rejected"); core::mem::forget(e); }
        Ok(r) => { assert!(false, "a trailing line that is not valid UTF-8 must be an error, not a (repaired) string"); core::mem::forget(r); }
    }
    core::mem::forget(src);
}
#[kani::proof] #[kani::unwind(10)] fn c15_eof_0() { eof_n::<0>() }
#[kani::proof] #[kani::unwind(10)] fn c15_eof_1() { eof_n::<1>() }
#[kani::proof] #[kani::unwind(10)] fn c15_eof_2() { eof_n::<2>() }
#[kani::proof] #[kani::unwind(10)] fn c15_eof_3() { eof_n::<3>() }

/// encode appends exactly item ++ '\n'
fn encode_n<const K: usize, const M: usize>() {
    let pre: [u8; K] = kani::any(); let item: [u8; M] = kani::any();
    kani::assume(ref_utf8(&item));
    let s = unsafe { core::str::from_utf8_unchecked(&item) };
    let mut dst = BytesMut::with_capacity(16); dst.extend_from_slice(&pre);
    let mut c = LinesCodec::default();
    let r = c.encode(s, &mut dst);
    assert!(r.is_ok());
    assert!(dst.len() == K + M + 1 && same(&dst[..K], &pre) && same(&dst[K..K + M], &item) && dst[K + M] == b'\n', "encode appends the item and exactly one newline");
    kani::cover!(true, "encoded");
    core::mem::forget(dst);
}
#[kani::proof] #[kani::unwind(10)] fn c15_encode_0_2() { encode_n::<0, 2>() }
#[kani::proof] #[kani::unwind(10)] fn c15_encode_1_1() { encode_n::<1, 1>() }
#[kani::proof] #[kani::unwind(10)] fn c15_encode_2_0() { encode_n::<2, 0>() }

/// round trip: strings without '\n' that do not end in '\r' come back unchanged, in order
fn roundtrip<const A: usize, const B: usize>() {
    let a: [u8; A] = kani::any(); let b: [u8; B] = kani::any();
    kani::assume(ref_utf8(&a) && ref_utf8(&b));
    kani::assume(first_nl(&a) == A && first_nl(&b) == B);
    kani::assume((A == 0 || a[A - 1] != b'\r') && (B == 0 || b[B - 1] != b'\r'));
    let mut c = LinesCodec::default();
    let mut buf = BytesMut::with_capacity(16);
    // (no unwrap(): the Debug formatting of the error payloads would drag the fmt machinery into the model)
    let (sa, sb) = unsafe { (core::str::from_utf8_unchecked(&a), core::str::from_utf8_unchecked(&b)) };
    if c.encode(sa, &mut buf).is_err() { assert!(false); }
    if c.encode(sb, &mut buf).is_err() { assert!(false); }
    // one decode gives the first string back and leaves exactly the second encoding; applying the same argument to the rest
    // (c15_decode_* hold for every buffer) gives the whole sequence back
    match c.decode(&mut buf) {
        Ok(Some(x)) => {
            assert!(same(x.as_bytes(), &a), "round trip: first string unchanged");
            assert!(buf.len() == B + 1 && same(&buf[..B], &b) && buf[B] == b'\n', "round trip: the rest of the buffer is the second encoding");
            core::mem::forget(x);
        }
        _ => assert!(false, "round trip must give the first string back"),
    }
    kani::cover!(true, "roundtrip");
    core::mem::forget(buf);
}
#[kani::proof] #[kani::unwind(10)] fn c15_roundtrip_1_0() { roundtrip::<1, 0>() }
#[kani::proof] #[kani::unwind(10)] fn c15_roundtrip_0_1() { roundtrip::<0, 1>() }
#[cfg(feature = "thorough")] #[kani::proof] #[kani::unwind(10)] fn c15_roundtrip_1_1() { roundtrip::<1, 1>() }
#[cfg(feature = "thorough")] #[kani::proof] #[kani::unwind(10)] fn c15_roundtrip_2_0() { roundtrip::<2, 0>() }
