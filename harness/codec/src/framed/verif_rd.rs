//! C13 - Framed decoding does not depend on how the bytes arrive. ONE `poll_next` per harness from a constructed pre-state
//! (K buffered symbolic bytes, symbolic flags satisfying the representation invariant J) against a transport whose first
//! answer is symbolic (Pending / a chunk of C symbolic bytes / end of stream / error) and whose later answers are Pending.
//!
//! J:  read_buf = bytes received and not yet consumed by a returned frame;  READABLE clear => the codec returns None on
//!     read_buf;  EOF set => the transport has reported end of stream (and READABLE is set until the codec is drained).
//! By induction over polls the frame sequence equals the codec's output on the concatenated stream for every chunking.
use super::*;
use crate::{util::{noop, same}, ReadBuf};

/// length-prefixed test codec: [tag][payload of (tag & 1) + 1 bytes]; frame = (len, p0, p1). decode_eof drops a partial tail.
#[derive(Clone, Copy)]
struct LenCodec;
fn len_decode(b: &[u8]) -> Option<((u8, u8, u8), usize)> {
    if b.is_empty() { return None; }
    let l = (b[0] & 1) as usize + 1;
    if b.len() < 1 + l { return None; }
    Some(((l as u8, b[1], if l > 1 { b[2] } else { 0 }), 1 + l))
}
impl Decoder for LenCodec {
    type Item = (u8, u8, u8); type Error = io::Error;
    fn decode(&mut self, src: &mut BytesMut) -> Result<Option<Self::Item>, io::Error> {
        match len_decode(src) { Some((f, n)) => { src.advance(n); Ok(Some(f)) } None => Ok(None) }
    }
    fn decode_eof(&mut self, src: &mut BytesMut) -> Result<Option<Self::Item>, io::Error> {
        match self.decode(src)? { Some(f) => Ok(Some(f)), None => { src.clear(); Ok(None) } }
    }
}

#[derive(Clone, Copy, PartialEq)]
enum Ans { Pending, Chunk, Eof, Err }
struct Rd<const C: usize> { first: Ans, chunk: [u8; C], reads: u8 }
impl<const C: usize> AsyncRead for Rd<C> {
    fn poll_read(mut self: Pin<&mut Self>, _: &mut Context<'_>, buf: &mut ReadBuf<'_>) -> Poll<io::Result<()>> {
        self.reads += 1;
        if self.reads > 1 { return Poll::Pending; }
        match self.first {
            Ans::Pending => Poll::Pending,
            Ans::Eof => Poll::Ready(Ok(())),
            Ans::Err => Poll::Ready(Err(io::ErrorKind::ConnectionReset.into())),
            Ans::Chunk => { assert!(buf.remaining() >= C, "room before every read"); buf.put_slice(&self.chunk); Poll::Ready(Ok(())) }
        }
    }
}
impl<const C: usize> AsyncWrite for Rd<C> {
    fn poll_write(self: Pin<&mut Self>, _: &mut Context<'_>, _: &[u8]) -> Poll<io::Result<usize>> { Poll::Pending }
    fn poll_flush(self: Pin<&mut Self>, _: &mut Context<'_>) -> Poll<io::Result<()>> { Poll::Pending }
    fn poll_shutdown(self: Pin<&mut Self>, _: &mut Context<'_>) -> Poll<io::Result<()>> { Poll::Pending }
}

fn any_ans() -> Ans { let k: u8 = kani::any(); match k & 3 { 0 => Ans::Pending, 1 => Ans::Chunk, 2 => Ans::Eof, _ => Ans::Err } }

fn one_poll<const K: usize, const C: usize>() {
    let pre: [u8; K] = kani::any(); let chunk: [u8; C] = kani::any();
    let readable: bool = kani::any(); let eof: bool = kani::any();
    // representation invariant J
    kani::assume(readable || len_decode(&pre).is_none());
    kani::assume(!eof || readable);
    let first = any_ans();
    kani::assume(C > 0 || first != Ans::Chunk);
    let mut flags = Flags::empty();
    if readable { flags.insert(Flags::READABLE); }
    if eof { flags.insert(Flags::EOF); }
    let mut rb = BytesMut::with_capacity(HW); rb.extend_from_slice(&pre);
    let mut f = Box::pin(Framed { io: Rd::<C> { first, chunk, reads: 0 }, codec: LenCodec, flags, read_buf: rb, write_buf: BytesMut::with_capacity(HW) });
    let w = noop(); let mut cx = Context::from_waker(&w);
    let r = f.as_mut().poll_next(&mut cx);
    let was_pending = matches!(r, Poll::Pending);
    // reference: what the codec yields on the bytes available
    let mut all = [0u8; 8]; let mut i = 0; while i < K { all[i] = pre[i]; i += 1; } let mut j = 0; while j < C { all[K + j] = chunk[j]; j += 1; }
    let from_pre = len_decode(&pre);
    if eof {
        // end of stream already seen: the codec's end-of-stream frames, then None; the transport is not read again
        assert!(f.io.reads == 0, "no read after end of stream");
        match (from_pre, r) {
            (Some((fr, n)), Poll::Ready(Some(Ok(g)))) => assert!(g == fr && same(&f.read_buf, &pre[n..]), "end-of-stream frame"),
            (None, Poll::Ready(None)) => assert!(f.read_buf.is_empty(), "stream ends once the codec is drained"),
            _ => assert!(false, "after end of stream: decode_eof frames then None"),
        }
        kani::cover!(from_pre.is_some(), "OPT_frame after eof");
    } else if let Some((fr, n)) = from_pre {
        // a frame is already buffered: it is returned without touching the transport
        match r { Poll::Ready(Some(Ok(g))) => assert!(g == fr && f.io.reads == 0 && same(&f.read_buf, &pre[n..]), "buffered frame first"), _ => assert!(false, "buffered frame must be returned") }
        kani::cover!(true, "OPT_buffered frame");
    } else {
        assert!(f.io.reads >= 1, "needs more data: the transport is read");
        match first {
            Ans::Pending => { assert!(matches!(r, Poll::Pending), "Pending only because the transport said so"); assert!(same(&f.read_buf, &pre), "nothing lost"); }
            Ans::Err => { assert!(matches!(r, Poll::Ready(Some(Err(_)))), "an I/O error is surfaced as a stream item"); assert!(same(&f.read_buf, &pre)); }
            Ans::Eof => {
                // partial tail is handed to decode_eof (the test codec drops it) and the stream ends
                assert!(matches!(r, Poll::Ready(None)), "end of stream: decode_eof, then None");
                assert!(f.flags.contains(Flags::EOF), "end of stream is remembered");
            }
            Ans::Chunk => match (len_decode(&all[..K + C]), r) {
                (Some((fr, n)), Poll::Ready(Some(Ok(g)))) => { assert!(g == fr && same(&f.read_buf, &all[n..K + C]), "frame = codec output on buffered ++ chunk; rest stays buffered"); kani::cover!(K > 0, "OPT_frame completed by the chunk"); }
                (None, Poll::Pending) => { assert!(same(&f.read_buf, &all[..K + C]), "bytes kept until the frame is complete"); assert!(f.io.reads == 2, "reads again after an incomplete frame"); }
                _ => assert!(false, "chunk: frame iff the codec decodes one from buffered ++ chunk"),
            },
        }
    }
    kani::cover!(true, "polled");
    // J is re-established
    // after EVERY poll, not only a pending one: a frame left in the buffer must still be marked readable, otherwise the next
    // poll reads from the transport first (it may stall on Pending, or surface a later I/O error before an earlier frame)
    assert!(len_decode(&f.read_buf).is_none() || f.flags.contains(Flags::READABLE), "J: READABLE clear => no frame buffered");
    // ... and the other half of J: EOF is set only if the transport has reported end of stream (before this poll, or by answering
    // Eof to the read of this poll); in particular an I/O error or a Pending read is not an end of stream - the next poll reads again
    assert!(!f.flags.contains(Flags::EOF) || eof || (first == Ans::Eof && f.io.reads >= 1), "J: EOF set => the transport reported end of stream");
    core::mem::forget(f);
}
#[kani::proof] #[kani::unwind(10)] fn c13_poll_k0_c1() { one_poll::<0, 1>() }
#[kani::proof] #[kani::unwind(10)] fn c13_poll_k0_c3() { one_poll::<0, 3>() }
#[kani::proof] #[kani::unwind(10)] fn c13_poll_k1_c1() { one_poll::<1, 1>() }
#[kani::proof] #[kani::unwind(10)] fn c13_poll_k1_c2() { one_poll::<1, 2>() }
#[kani::proof] #[kani::unwind(10)] fn c13_poll_k2_c1() { one_poll::<2, 1>() }
#[kani::proof] #[kani::unwind(10)] fn c13_poll_k2_c0() { one_poll::<2, 0>() }
#[kani::proof] #[kani::unwind(10)] fn c13_poll_k3_c2() { one_poll::<3, 2>() }
#[kani::proof] #[kani::unwind(10)] fn c13_poll_k4_c0() { one_poll::<4, 0>() }
#[kani::proof] #[kani::unwind(10)] fn c13_poll_k4_c1() { one_poll::<4, 1>() }
#[cfg(feature = "thorough")] #[kani::proof] #[kani::unwind(10)] fn c13_poll_k4_c3() { one_poll::<4, 3>() }
#[cfg(feature = "thorough")] #[kani::proof] #[kani::unwind(10)] fn c13_poll_k2_c3() { one_poll::<2, 3>() }

/// BytesCodec: whatever is buffered is the frame
#[kani::proof] #[kani::unwind(10)]
fn c13_bytes_codec_k1_c2() {
    let pre: [u8; 1] = kani::any(); let chunk: [u8; 2] = kani::any();
    let mut rb = BytesMut::with_capacity(HW); rb.extend_from_slice(&pre);
    let mut f = Box::pin(Framed { io: Rd::<2> { first: Ans::Chunk, chunk, reads: 0 }, codec: crate::BytesCodec, flags: Flags::empty(), read_buf: rb, write_buf: BytesMut::with_capacity(HW) });
    let w = noop(); let mut cx = Context::from_waker(&w);
    match f.as_mut().poll_next(&mut cx) {
        Poll::Ready(Some(Ok(b))) => { assert!(b.len() == 3 && b[0] == pre[0] && b[1] == chunk[0] && b[2] == chunk[1]); assert!(f.read_buf.is_empty()); kani::cover!(true, "bytes frame"); }
        _ => assert!(false),
    }
    core::mem::forget(f);
}

/// end-to-end spot check of the induction: 3 bytes, every chunking, Pending anywhere
/// measured on 2026-09-27: CBMC runs out of memory on it (error after ~6 min): kept for reference under its own feature, outside every tier
#[cfg(feature = "oversize")]
#[kani::proof] #[kani::unwind(12)]
fn c13_end_to_end_3() {
    struct Script { data: [u8; 3], pos: usize, pend: u8 }
    impl AsyncRead for Script {
        fn poll_read(mut self: Pin<&mut Self>, _: &mut Context<'_>, buf: &mut ReadBuf<'_>) -> Poll<io::Result<()>> {
            if self.pend > 0 && kani::any() { self.pend -= 1; return Poll::Pending; }
            let left = 3 - self.pos; if left == 0 { return Poll::Ready(Ok(())); }
            let k: usize = kani::any(); kani::assume(k >= 1 && k <= left);
            let p = self.pos; buf.put_slice(&self.data[p..p + k]); self.pos += k; Poll::Ready(Ok(()))
        }
    }
    impl AsyncWrite for Script {
        fn poll_write(self: Pin<&mut Self>, _: &mut Context<'_>, _: &[u8]) -> Poll<io::Result<usize>> { Poll::Pending }
        fn poll_flush(self: Pin<&mut Self>, _: &mut Context<'_>) -> Poll<io::Result<()>> { Poll::Pending }
        fn poll_shutdown(self: Pin<&mut Self>, _: &mut Context<'_>) -> Poll<io::Result<()>> { Poll::Pending }
    }
    let data: [u8; 3] = kani::any();
    let mut exp = [(0u8, 0u8, 0u8); 2]; let mut ne = 0; let mut p = 0;
    while p < 3 { match len_decode(&data[p..]) { Some((fr, n)) => { exp[ne] = fr; ne += 1; p += n; } None => break } }
    let mut f = Box::pin(Framed::new(Script { data, pos: 0, pend: 1 }, LenCodec));
    let w = noop(); let mut cx = Context::from_waker(&w);
    let mut got = 0; let mut polls = 0; let mut ended = false;
    while polls < 6 {
        match f.as_mut().poll_next(&mut cx) {
            Poll::Pending => {}
            Poll::Ready(Some(Ok(fr))) => { assert!(got < ne && fr == exp[got], "frames in stream order"); got += 1; }
            Poll::Ready(Some(Err(_))) => assert!(false),
            Poll::Ready(None) => { ended = true; break; }
        }
        polls += 1;
    }
    if ended { assert!(got == ne, "no frame lost"); }
    kani::cover!(ended && ne == 1, "ended");
    core::mem::forget(f);
}

/// "Make sure we've got room": the reserve arithmetic before every transport read, with the REAL marks (LW = 1 KiB,
/// HW = 8 KiB). `lenonly` configuration of the model buffer: lengths and capacities are exact and symbolic, contents are
/// not maintained, so the codec here never finds a frame (a long undecoded frame is exactly the interesting case).
#[cfg(feature = "lenonly")]
mod room {
    use super::*;
    struct Never;
    impl Decoder for Never { type Item = (); type Error = io::Error; fn decode(&mut self, _: &mut BytesMut) -> Result<Option<()>, io::Error> { Ok(None) } }
    struct Rd2 { room_seen: usize, reads: u8, give: usize }
    impl AsyncRead for Rd2 {
        fn poll_read(mut self: Pin<&mut Self>, _: &mut Context<'_>, buf: &mut ReadBuf<'_>) -> Poll<io::Result<()>> {
            self.reads += 1;
            if self.reads > 1 { return Poll::Pending; }
            self.room_seen = buf.remaining();
            let z = [0u8; 8]; let g = self.give; buf.put_slice(&z[..g]);
            Poll::Ready(Ok(()))
        }
    }
    impl AsyncWrite for Rd2 {
        fn poll_write(self: Pin<&mut Self>, _: &mut Context<'_>, _: &[u8]) -> Poll<io::Result<usize>> { Poll::Pending }
        fn poll_flush(self: Pin<&mut Self>, _: &mut Context<'_>) -> Poll<io::Result<()>> { Poll::Pending }
        fn poll_shutdown(self: Pin<&mut Self>, _: &mut Context<'_>) -> Poll<io::Result<()>> { Poll::Pending }
    }
    /// any buffered length up to 8936 undecoded bytes (beyond the 8 KiB mark), any capacity >= length, READABLE either way:
    /// the poll does not panic, offers at least LW bytes of room to the read, and keeps every byte
    #[kani::proof] #[kani::unwind(10)]
    fn c13_room_before_every_read() {
        let len: usize = kani::any(); kani::assume(len <= 8936);
        let cap: usize = kani::any(); kani::assume(cap >= len && cap <= 20000);
        let give: usize = kani::any(); kani::assume(give >= 1 && give <= 8);
        let readable: bool = kani::any();
        let mut flags = Flags::empty(); if readable { flags.insert(Flags::READABLE); }
        let mut f = Box::pin(Framed { io: Rd2 { room_seen: 0, reads: 0, give }, codec: Never, flags, read_buf: BytesMut::model_with_len(len, cap), write_buf: BytesMut::with_capacity(HW) });
        let w = noop(); let mut cx = Context::from_waker(&w);
        let r = f.as_mut().poll_next(&mut cx);
        assert!(matches!(r, Poll::Pending), "an incomplete frame: Pending once the transport has nothing more");
        assert!(f.io.reads == 2, "the transport is read until it is Pending");
        assert!(f.io.room_seen >= 1024, "at least LW bytes of room are offered to every read (a full buffer would read 0 bytes = a false end of stream)");
        assert!(f.read_buf.len() == len + give, "every byte received is kept while the frame is incomplete");
        assert!(!f.flags.contains(Flags::EOF), "no end of stream was reported");
        kani::cover!(len > 8192 && cap - len < 1024, "beyond the high-water mark with little room");
        kani::cover!(len < 1024 && cap - len < 1024, "small buffer with little room");
        kani::cover!(cap - len >= 1024, "enough room already");
        core::mem::forget(f);
    }
}
