//! C14 - Framed writes are lossless, ordered and bounded, and close flushes. One sink operation per harness from a
//! pre-state with K buffered bytes (symbolic contents) against a transport whose every answer is symbolic.
use super::*;
use crate::util::{noop, same};
use bytes::BufMut;
use crate::ReadBuf;

struct Enc;
impl Encoder<[u8; 2]> for Enc { type Error = io::Error; fn encode(&mut self, item: [u8; 2], dst: &mut BytesMut) -> Result<(), io::Error> { dst.put_slice(&item); Ok(()) } }
impl Decoder for Enc { type Item = (); type Error = io::Error; fn decode(&mut self, _: &mut BytesMut) -> Result<Option<()>, io::Error> { Ok(None) } }

/// Transport: every poll_write answers Pending, Ok(0), Ok(j) with 1 <= j <= len (symbolic) or an error; at most 3 writes
/// per harness (further writes are outside the bound). poll_flush / poll_shutdown answer Ready(Ok) or Pending.
struct Wr { got: [u8; 8], n: usize, writes: u8, zero: bool, failed: bool, flushes: u8, shutdowns: u8, shutdown_after_n: usize, pend_flush: bool }
impl Wr { fn new() -> Self { Wr { got: [0; 8], n: 0, writes: 0, zero: false, failed: false, flushes: 0, shutdowns: 0, shutdown_after_n: 0, pend_flush: false } } }
impl AsyncRead for Wr { fn poll_read(self: Pin<&mut Self>, _: &mut Context<'_>, _: &mut ReadBuf<'_>) -> Poll<io::Result<()>> { Poll::Ready(Ok(())) } }
impl AsyncWrite for Wr {
    fn poll_write(mut self: Pin<&mut Self>, _: &mut Context<'_>, b: &[u8]) -> Poll<io::Result<usize>> {
        if self.writes >= 3 { kani::assume(false); }
        self.writes += 1;
        assert!(!b.is_empty(), "never writes an empty buffer");
        let choice: u8 = kani::any();
        if choice == 0 { return Poll::Pending; }
        if choice == 1 { self.zero = true; return Poll::Ready(Ok(0)); }
        if choice == 2 { self.failed = true; return Poll::Ready(Err(io::ErrorKind::BrokenPipe.into())); }
        let k: usize = kani::any(); kani::assume(k >= 1 && k <= b.len() && self.n + k <= 8);
        let n = self.n; let mut i = 0; while i < k { self.got[n + i] = b[i]; i += 1; } self.n += k;
        Poll::Ready(Ok(k))
    }
    fn poll_flush(mut self: Pin<&mut Self>, _: &mut Context<'_>) -> Poll<io::Result<()>> {
        self.flushes += 1;
        if kani::any() { self.pend_flush = true; return Poll::Pending; }
        Poll::Ready(Ok(()))
    }
    fn poll_shutdown(mut self: Pin<&mut Self>, _: &mut Context<'_>) -> Poll<io::Result<()>> {
        self.shutdowns += 1; self.shutdown_after_n = self.n;
        if kani::any() { return Poll::Pending; }
        Poll::Ready(Ok(()))
    }
}

fn mk<const K: usize>(pre: &[u8; K]) -> Pin<Box<Framed<Wr, Enc>>> {
    let mut wb = BytesMut::with_capacity(HW);
    wb.extend_from_slice(pre);
    Box::pin(Framed { io: Wr::new(), codec: Enc, flags: Flags::empty(), read_buf: BytesMut::with_capacity(HW), write_buf: wb })
}

/// conservation: bytes accepted by the transport ++ bytes still buffered == old buffer ++ encodings, whatever happened
fn conserved<const K: usize>(f: &Framed<Wr, Enc>, pre: &[u8; K], item: Option<[u8; 2]>) -> bool {
    let mut all = [0u8; 8]; let mut t = 0;
    let mut i = 0; while i < K { all[t] = pre[i]; t += 1; i += 1; }
    if let Some(it) = item { all[t] = it[0]; all[t + 1] = it[1]; t += 2; }
    let n = f.io.n;
    n + f.write_buf.len() == t && same(&f.io.got[..n], &all[..n]) && same(&f.write_buf, &all[n..t])
}

fn send_flush<const K: usize>(send: bool, close: bool) {
    let pre: [u8; K] = kani::any(); let item: [u8; 2] = kani::any();
    let mut f = mk::<K>(&pre);
    let w = noop(); let mut cx = Context::from_waker(&w);
    if send { assert!(Sink::<[u8; 2]>::start_send(f.as_mut(), item).is_ok()); }
    assert!(conserved::<K>(&f, &pre, if send { Some(item) } else { None }), "start_send only appends the encoding");
    let r = if close { Sink::<[u8; 2]>::poll_close(f.as_mut(), &mut cx) } else { Sink::<[u8; 2]>::poll_flush(f.as_mut(), &mut cx) };
    assert!(conserved::<K>(&f, &pre, if send { Some(item) } else { None }), "nothing lost, duplicated or reordered under partial writes");
    match r {
        Poll::Ready(Ok(())) => {
            assert!(f.is_write_buf_empty(), "success is reported only when nothing remains buffered");
            assert!(!f.io.zero && !f.io.failed, "a failed or zero-length write is not reported as success");
            if close { assert!(f.io.shutdowns >= 1 && f.io.shutdown_after_n == f.io.n, "shutdown comes after the last write"); }
            else { assert!(f.io.flushes >= 1, "the transport was flushed"); }
            kani::cover!(f.io.writes >= 2, "OPT_success after a partial write");
            kani::cover!(true, "success");
        }
        Poll::Ready(Err(e)) => {
            assert!(f.io.zero || f.io.failed, "errors come from the transport only");
            if f.io.zero { assert!(e.kind() == io::ErrorKind::WriteZero, "a zero-length write is a WriteZero error"); }
            kani::cover!(f.io.zero, "OPT_write zero");
            core::mem::forget(e);
        }
        Poll::Pending => { kani::cover!(true, "pending"); }
    }
    core::mem::forget(f);
}
#[kani::proof] #[kani::unwind(10)] fn c14_send_flush_k0() { send_flush::<0>(true, false) }
#[kani::proof] #[kani::unwind(10)] fn c14_send_flush_k1() { send_flush::<1>(true, false) }
#[kani::proof] #[kani::unwind(10)] fn c14_send_flush_k3() { send_flush::<3>(true, false) }
#[kani::proof] #[kani::unwind(10)] fn c14_flush_only_k2() { send_flush::<2>(false, false) }
#[kani::proof] #[kani::unwind(10)] fn c14_flush_empty() { send_flush::<0>(false, false) }
#[kani::proof] #[kani::unwind(10)] fn c14_send_close_k0() { send_flush::<0>(true, true) }
#[kani::proof] #[kani::unwind(10)] fn c14_send_close_k2() { send_flush::<2>(true, true) }
#[kani::proof] #[kani::unwind(10)] fn c14_close_only_k1() { send_flush::<1>(false, true) }
#[kani::proof] #[kani::unwind(10)] fn c14_close_empty() { send_flush::<0>(false, true) }

/// back-pressure: poll_ready is Ready(Ok) without touching the transport while fewer than HW bytes are buffered
#[kani::proof] #[kani::unwind(10)]
fn c14_ready_below_high_water() {
    let pre: [u8; 3] = kani::any();
    let mut f = mk::<3>(&pre);
    let w = noop(); let mut cx = Context::from_waker(&w);
    let r = Sink::<[u8; 2]>::poll_ready(f.as_mut(), &mut cx);
    assert!(matches!(r, Poll::Ready(Ok(()))) && f.io.writes == 0 && f.io.flushes == 0);
    assert!(f.is_write_ready() == (f.write_buf.len() < HW) && f.is_write_buf_full() == (f.write_buf.len() >= HW));
    kani::cover!(true, "ready");
    core::mem::forget(f);
}


// ---------------------------------------------------------------- high-water mark (lengths only; model bytes feature `lenonly`)
#[cfg(feature = "lenonly")]
mod hw {
    use super::*;
    struct Big;     // an item whose encoding is `n` unspecified bytes
    struct EncN;
    impl Encoder<usize> for EncN { type Error = io::Error; fn encode(&mut self, n: usize, dst: &mut BytesMut) -> Result<(), io::Error> { let z = [0u8; 64]; let mut left = n; while left > 0 { let k = if left > 64 { 64 } else { left }; dst.put_slice(&z[..k]); left -= k; } Ok(()) } }
    impl Decoder for EncN { type Item = (); type Error = io::Error; fn decode(&mut self, _: &mut BytesMut) -> Result<Option<()>, io::Error> { Ok(None) } }
    /// transport that accepts a symbolic number of bytes per write (or is Pending), counting what it took
    struct Cnt { taken: usize, writes: u8, flushes: u8 }
    impl AsyncRead for Cnt { fn poll_read(self: Pin<&mut Self>, _: &mut Context<'_>, _: &mut ReadBuf<'_>) -> Poll<io::Result<()>> { Poll::Ready(Ok(())) } }
    impl AsyncWrite for Cnt {
        fn poll_write(mut self: Pin<&mut Self>, _: &mut Context<'_>, b: &[u8]) -> Poll<io::Result<usize>> {
            if self.writes >= 2 { kani::assume(false); }
            self.writes += 1;
            if kani::any() { return Poll::Pending; }
            let k: usize = kani::any(); kani::assume(k >= 1 && k <= b.len());
            self.taken += k; Poll::Ready(Ok(k))
        }
        fn poll_flush(mut self: Pin<&mut Self>, _: &mut Context<'_>) -> Poll<io::Result<()>> { self.flushes += 1; Poll::Ready(Ok(())) }
        fn poll_shutdown(self: Pin<&mut Self>, _: &mut Context<'_>) -> Poll<io::Result<()>> { Poll::Ready(Ok(())) }
    }
    fn mk(len: usize) -> Pin<Box<Framed<Cnt, EncN>>> {
        Box::pin(Framed { io: Cnt { taken: 0, writes: 0, flushes: 0 }, codec: EncN, flags: Flags::empty(), read_buf: BytesMut::with_capacity(HW), write_buf: BytesMut::model_with_len(len, HW) })
    }
    /// poll_ready: Ready(Ok) without touching the transport exactly while fewer than HW (8192) bytes are buffered; at or above
    /// the mark it must flush, and may report Ready(Ok) only once everything has been written
    #[kani::proof] #[kani::unwind(4)]
    fn c14_hw_poll_ready_back_pressure() {
        let len: usize = kani::any(); kani::assume(len <= 8300);
        let mut f = mk(len);
        let w = noop(); let mut cx = Context::from_waker(&w);
        let r = Sink::<usize>::poll_ready(f.as_mut(), &mut cx);
        if len < 8192 {
            assert!(matches!(r, Poll::Ready(Ok(()))) && f.io.writes == 0, "below the high-water mark: ready without I/O");
        } else {
            assert!(f.io.writes >= 1, "at or above the high-water mark poll_ready exerts back-pressure (it flushes)");
            if let Poll::Ready(Ok(())) = r { assert!(f.write_buf.len() == 0 && f.io.taken == len, "ready again only after the buffer has been written out"); }
        }
        assert!(f.io.taken + f.write_buf.len() == len, "lengths are conserved");
        kani::cover!(len == 8192, "exactly at the mark"); kani::cover!(len == 8191, "one below the mark");
        core::mem::forget(f);
    }
    /// the accessors agree with the mark
    #[kani::proof] #[kani::unwind(4)]
    fn c14_hw_accessors() {
        let len: usize = kani::any(); kani::assume(len <= 8300);
        let f = mk(len);
        assert!(f.is_write_ready() == (len < 8192) && f.is_write_buf_full() == (len >= 8192) && f.is_write_buf_empty() == (len == 0));
        kani::cover!(len == 8192, "at the mark");
        core::mem::forget(f);
    }
    /// start_send of an item straddling the marks only appends: the buffered length grows by exactly the encoding
    #[kani::proof] #[kani::unwind(140)]
    fn c14_hw_start_send_appends() {
        let len: usize = kani::any(); let n: usize = kani::any(); kani::assume(len <= 8300 && n <= 600);
        let mut f = mk(len);
        assert!(Sink::<usize>::start_send(f.as_mut(), n).is_ok());
        assert!(f.write_buf.len() == len + n && f.io.writes == 0, "start_send only appends the encoding");
        kani::cover!(len < 1024 && len + n > 1024, "crosses the low-water mark"); kani::cover!(len < 8192 && len + n > 8192, "crosses the high-water mark");
        core::mem::forget(f);
    }
}
