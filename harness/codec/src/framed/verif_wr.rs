//! C14 - Framed writes are lossless, ordered and bounded, and close flushes. One sink operation per harness from a
//! pre-state with K buffered bytes (symbolic contents) against a transport whose every answer is symbolic.
use super::*;
use crate::util::{noop, same};
use bytes::BufMut;
use crate::ReadBuf;

struct Enc;
impl Encoder<[u8; 2]> for Enc { type Error = io::Error; fn encode(&mut self, item: [u8; 2], dst: &mut BytesMut) -> Result<(), io::Error> { dst.put_slice(&item); Ok(()) } }
impl Decoder for Enc { type Item = (); type Error = io::Error; fn decode(&mut self, _: &mut BytesMut) -> Result<Option<()>, io::Error> { Ok(None) } }

/// Transport: every poll_write answers Pending, Ok(0), Ok(j) with 1 <= j <= len (symbolic) or an error; at most 3 writes
/// per harness (further writes are outside the bound). poll_flush / poll_shutdown answer Ready(Ok) or Pending.
struct Wr { got: [u8; 8], n: usize, writes: u8, zero: bool, failed: bool, flushes: u8, shutdowns: u8, shutdown_after_n: usize, pend_flush: bool }
impl Wr { fn new() -> Self { Wr { got: [0; 8], n: 0, writes: 0, zero: false, failed: false, flushes: 0, shutdowns: 0, shutdown_after_n: 0, pend_flush: false } } }
impl AsyncRead for Wr { fn poll_read(self: Pin<&mut Self>, _: &mut Context<'_>, _: &mut ReadBuf<'_>) -> Poll<io::Result<()>> { Poll::Ready(Ok(())) } }
impl AsyncWrite for Wr {
    fn poll_write(mut self: Pin<&mut Self>, _: &mut Context<'_>, b: &[u8]) -> Poll<io::Result<usize>> {
        if self.writes >= 3 { kani::assume(false); }
        self.writes += 1;
        assert!(!b.is_empty(), "never writes an empty buffer");
        let choice: u8 = kani::any();
        if choice == 0 { return Poll::Pending; }
        if choice == 1 { self.zero = true; return Poll::Ready(Ok(0)); }
        if choice == 2 { self.failed = true; return Poll::Ready(Err(io::ErrorKind::BrokenPipe.into())); }
        let k: usize = kani::any(); kani::assume(k >= 1 && k <= b.len() && self.n + k <= 8);
        let n = self.n; let mut i = 0; while i < k { self.got[n + i] = b[i]; i += 1; } self.n += k;
        Poll::Ready(Ok(k))
    }
    fn poll_flush(mut self: Pin<&mut Self>, _: &mut Context<'_>) -> Poll<io::Result<()>> {
        self.flushes += 1;
        if kani::any() { self.pend_flush = true; return Poll::Pending; }
        Poll::Ready(Ok(()))
    }
    fn poll_shutdown(mut self: Pin<&mut Self>, _: &mut Context<'_>) -> Poll<io::Result<()>> {
        self.shutdowns += 1; self.shutdown_after_n = self.n;
        if kani::any() { return Poll::Pending; }
        Poll::Ready(Ok(()))
    }
}

fn mk<const K: usize>(pre: &[u8; K]) -> Pin<Box<Framed<Wr, Enc>>> {
    let mut wb = BytesMut::with_capacity(HW);
    wb.extend_from_slice(pre);
    Box::pin(Framed { io: Wr::new(), codec: Enc, flags: Flags::empty(), read_buf: BytesMut::with_capacity(HW), write_buf: wb })
}

/// conservation: bytes accepted by the transport ++ bytes still buffered == old buffer ++ encodings, whatever happened
fn conserved<const K: usize>(f: &Framed<Wr, Enc>, pre: &[u8; K], item: Option<[u8; 2]>) -> bool {
    let mut all = [0u8; 8]; let mut t = 0;
    let mut i = 0; while i < K { all[t] = pre[i]; t += 1; i += 1; }
    if let Some(it) = item { all[t] = it[0]; all[t + 1] = it[1]; t += 2; }
    let n = f.io.n;
    n + f.write_buf.len() == t && same(&f.io.got[..n], &all[..n]) && same(&f.write_buf, &all[n..t])
}

fn send_flush<const K: usize>(send: bool, close: bool) {
    let pre: [u8; K] = kani::any(); let item: [u8; 2] = kani::any();
    let mut f = mk::<K>(&pre);
    let w = noop(); let mut cx = Context::from_waker(&w);
    if send { assert!(Sink::<[u8; 2]>::start_send(f.as_mut(), item).is_ok()); }
    assert!(conserved::<K>(&f, &pre, if send { Some(item) } else { None }), "start_send only appends the encoding");
    let r = if close { Sink::<[u8; 2]>::poll_close(f.as_mut(), &mut cx) } else { Sink::<[u8; 2]>::poll_flush(f.as_mut(), &mut cx) };
    assert!(conserved::<K>(&f, &pre, if send { Some(item) } else { None }), "nothing lost, duplicated or reordered under partial writes");
    match r {
        Poll::Ready(Ok(())) => {
            assert!(f.is_write_buf_empty(), "success is reported only when nothing remains buffered");
            assert!(!f.io.zero && !f.io.failed, "a failed or zero-length write is not reported as success");
            if close { assert!(f.io.shutdowns >= 1 && f.io.shutdown_after_n == f.io.n, "shutdown comes after the last write"); }
            else { assert!(f.io.flushes >= 1, "the transport was flushed"); }
            kani::cover!(f.io.writes >= 2, "OPT_success after a partial write");
            kani::cover!(true, "success");
        }
        Poll::Ready(Err(e)) => {
            assert!(f.io.zero || f.io.failed, "errors come from the transport only");
            if f.io.zero { assert!(e.kind() == io::ErrorKind::WriteZero, "a zero-length write is a WriteZero error"); }
            kani::cover!(f.io.zero, "OPT_write zero");
            core::mem::forget(e);
        }
        Poll::Pending => { kani::cover!(true, "pending"); }
    }
    core::mem::forget(f);
}
#[kani::proof] #[kani::unwind(10)] fn c14_send_flush_k0() { send_flush::<0>(true, false) }
#[kani::proof] #[kani::unwind(10)] fn c14_send_flush_k1() { send_flush::<1>(true, false) }
#[kani::proof] #[kani::unwind(10)] fn c14_send_flush_k3() { send_flush::<3>(true, false) }
#[kani::proof] #[kani::unwind(10)] fn c14_flush_only_k2() { send_flush::<2>(false, false) }
#[kani::proof] #[kani::unwind(10)] fn c14_flush_empty() { send_flush::<0>(false, false) }
#[kani::proof] #[kani::unwind(10)] fn c14_send_close_k0() { send_flush::<0>(true, true) }
#[kani::proof] #[kani::unwind(10)] fn c14_send_close_k2() { send_flush::<2>(true, true) }
#[kani::proof] #[kani::unwind(10)] fn c14_close_only_k1() { send_flush::<1>(false, true) }
#[kani::proof] #[kani::unwind(10)] fn c14_close_empty() { send_flush::<0>(false, true) }

/// back-pressure: poll_ready is Ready(Ok) without touching the transport while fewer than HW bytes are buffered
#[kani::proof] #[kani::unwind(10)]
fn c14_ready_below_high_water() {
    let pre: [u8; 3] = kani::any();
    let mut f = mk::<3>(&pre);
    let w = noop(); let mut cx = Context::from_waker(&w);
    let r = Sink::<[u8; 2]>::poll_ready(f.as_mut(), &mut cx);
    assert!(matches!(r, Poll::Ready(Ok(()))) && f.io.writes == 0 && f.io.flushes == 0);
    assert!(f.is_write_ready() == (f.write_buf.len() < HW) && f.is_write_buf_full() == (f.write_buf.len() >= HW));
    kani::cover!(true, "ready");
    core::mem::forget(f);
}
