//! Mount-style Kani harness crate for actix-codec: `framed.rs`, `lines.rs`, `bcodec.rs` are the files of /repo (include!,
//! byte for byte), compiled against the model crates `bytes` (inline fixed-capacity buffers), `memchr`, `tokio::io`,
//! `tokio-util` (verbatim trait text) and `tracing` (no-op). Harnesses are child modules, so they see `Framed`'s flags.
#![allow(dead_code, unused_imports, unused_variables, clippy::all)]
pub use tokio::io::{AsyncRead, AsyncWrite, ReadBuf};
pub use tokio_util::{codec::{Decoder, Encoder}, io::poll_read_buf};
mod bcodec { include!("/repo/actix-codec/src/bcodec.rs"); }
mod framed {
    include!("/repo/actix-codec/src/framed.rs");
    #[cfg(kani)] mod verif_rd;
    #[cfg(kani)] mod verif_wr;
}
mod lines {
    include!("/repo/actix-codec/src/lines.rs");
    #[cfg(kani)] mod verif_lines;
}
pub use self::{bcodec::BytesCodec, framed::{Framed, FramedParts}, lines::LinesCodec};

#[cfg(kani)]
pub(crate) mod util {
    use std::task::{RawWaker, RawWakerVTable, Waker};
    pub fn noop() -> Waker {
        fn cl(_: *const ()) -> RawWaker { RawWaker::new(std::ptr::null(), &VT) }
        fn no(_: *const ()) {}
        static VT: RawWakerVTable = RawWakerVTable::new(cl, no, no, no);
        unsafe { Waker::from_raw(RawWaker::new(std::ptr::null(), &VT)) }
    }
    /// Independent reference UTF-8 validator (RFC 3629 table).
    pub fn ref_utf8(b: &[u8]) -> bool {
        let n = b.len(); let mut i = 0;
        while i < n {
            let c = b[i];
            let (len, lo, hi) = match c {
                0x00..=0x7f => (1, 0x80, 0xbf), 0xc2..=0xdf => (2, 0x80, 0xbf), 0xe0 => (3, 0xa0, 0xbf),
                0xe1..=0xec | 0xee..=0xef => (3, 0x80, 0xbf), 0xed => (3, 0x80, 0x9f), 0xf0 => (4, 0x90, 0xbf),
                0xf1..=0xf3 => (4, 0x80, 0xbf), 0xf4 => (4, 0x80, 0x8f), _ => return false,
            };
            if i + len > n { return false; }
            if len >= 2 && !(b[i + 1] >= lo && b[i + 1] <= hi) { return false; }
            let mut k = 2;
            while k < len { if b[i + k] & 0xc0 != 0x80 { return false; } k += 1; }
            i += len;
        }
        true
    }
    pub fn same(a: &[u8], b: &[u8]) -> bool { if a.len() != b.len() { return false; } let mut i = 0; while i < a.len() { if a[i] != b[i] { return false; } i += 1; } true }
}
