//! Kani harnesses for the `Host` implementations of actix-tls (C19: "host strings with/without port"): the real
//! /repo/actix-tls/src/connect/host.rs is mounted by path; `hostname()` / `port()` of `&'static str` and `String` are
//! compared with a byte-level reference for every ASCII string up to the stated length.
#![allow(unused)]
#[path = "/repo/actix-tls/src/connect/host.rs"]
pub mod host;

#[cfg(kani)]
mod h {
    use super::host::Host;

    /// reference: text before the first ':' ; port = the text after the first ':' parsed as `u16::from_str` does
    /// (optional leading '+', then 1.. ASCII digits, value <= 65535)
    fn ref_split(b: &[u8]) -> (usize, Option<usize>) {
        let mut i = 0;
        while i < b.len() { if b[i] == b':' { return (i, Some(i + 1)); } i += 1; }
        (b.len(), None)
    }
    fn ref_port(b: &[u8]) -> Option<u16> {
        let mut i = 0;
        if b.is_empty() { return None; }
        if b[0] == b'+' { i = 1; if b.len() == 1 { return None; } }
        let mut v: u32 = 0;
        while i < b.len() {
            let c = b[i];
            if c < b'0' || c > b'9' { return None; }
            v = v * 10 + (c - b'0') as u32;
            if v > 65535 { return None; }
            i += 1;
        }
        Some(v as u16)
    }

    fn check<const N: usize>(as_string: bool) {
        let bytes: [u8; N] = kani::any();
        let len: usize = kani::any(); kani::assume(len <= N);
        let mut k = 0;
        while k < N { kani::assume(bytes[k] < 0x80); k += 1; }
        // restrict the alphabet to what distinguishes the behaviours: letters, digits, ':', '+', '-', '.', space
        let s: &'static str = unsafe { core::mem::transmute::<&str, &'static str>(core::str::from_utf8_unchecked(&bytes[..len])) };
        let (hl, p) = ref_split(&bytes[..len]);
        let (h, port) = if as_string {
            // a String over the same bytes without going through the allocator (never dropped)
            let o = core::mem::ManuallyDrop::new(unsafe { String::from_raw_parts(bytes.as_ptr() as *mut u8, len, N) });
            (Host::hostname(&*o).len(), Host::port(&*o))
        } else { (s.hostname().len(), s.port()) };
        assert!(h == hl, "hostname() is the text before the first ':'");
        let hn = if as_string { 0 } else { s.hostname().as_ptr() as usize - s.as_ptr() as usize };
        assert!(hn == 0, "hostname() starts at the start of the string");
        let want = match p { None => None, Some(at) => ref_port(&bytes[at..len]) };
        assert!(port == want, "port() is the decimal u16 after the first ':' or None");
        kani::cover!(want.is_some(), "a port was parsed");
        kani::cover!(p.is_some() && want.is_none(), "text after ':' is not a port");
        kani::cover!(p.is_none(), "no colon");
    }

    /// port boundary cases: "h:" + up to M symbolic bytes (digits, '+', ':' or a letter) - reaches 65535 / 65536 / 99999 / "+1" / "1:2"
    fn check_port<const M: usize>() {
        let mut bytes = [0u8; 8];
        bytes[0] = b'h'; bytes[1] = b':';
        let len: usize = kani::any(); kani::assume(len <= M);
        let mut k = 0;
        while k < M {
            let c: u8 = kani::any();
            kani::assume((c >= b'0' && c <= b'9') || c == b'+' || c == b':' || c == b'x');
            bytes[2 + k] = c; k += 1;
        }
        let s: &'static str = unsafe { core::mem::transmute::<&str, &'static str>(core::str::from_utf8_unchecked(&bytes[..2 + len])) };
        let want = ref_port(&bytes[2..2 + len]);
        assert!(s.hostname().len() == 1, "hostname() is the text before the first ':'");
        assert!(s.port() == want, "port() is the decimal u16 after the first ':' or None");
        kani::cover!(want == Some(65535), "OPT_largest port");
        kani::cover!(len == 5 && want.is_none() && bytes[2] == b'6' && bytes[3] == b'5' && bytes[4] == b'5' && bytes[5] == b'3' && bytes[6] == b'6', "OPT_65536 is not a port");
    }
    #[kani::proof] #[kani::unwind(9)] fn c19_host_port_5() { check_port::<5>(); }
    #[cfg(feature = "thorough")] #[kani::proof] #[kani::unwind(9)] fn c19_host_port_6() { check_port::<6>(); }

    #[kani::proof] #[kani::unwind(8)] fn c19_host_str_4() { check::<4>(false); }
    #[cfg(feature = "thorough")] #[kani::proof] #[kani::unwind(8)] fn c19_host_string_4() { check::<4>(true); }
    #[kani::proof] #[kani::unwind(8)] fn c19_host_string_3() { check::<3>(true); }
}
