//! Kani harnesses for C17: actix_utils::counter::Counter (capacity gate with a guaranteed wake on release) and
//! local_waker::LocalWaker. Symbolic operation sequences, symbolic capacity, counting wakers with identities.
#![allow(unused, static_mut_refs)]
#[cfg(kani)]
mod h {
    use actix_utils::counter::{Counter, CounterGuard};
    use core::task::{Context, RawWaker, RawWakerVTable, Waker};
    use local_waker::LocalWaker;

    static mut WAKES: [u8; 2] = [0; 2];
    fn wakes(j: usize) -> u8 { unsafe { WAKES[j] } }
    fn waker(id: usize) -> Waker {
        fn cl(p: *const ()) -> RawWaker { RawWaker::new(p, &VT) }
        fn wk(p: *const ()) { unsafe { WAKES[p as usize] += 1; } }
        fn no(_: *const ()) {}
        static VT: RawWakerVTable = RawWakerVTable::new(cl, wk, wk, no);
        unsafe { Waker::from_raw(RawWaker::new(id as *const (), &VT)) }
    }

    fn counter_seq<const STEPS: usize>() {
        unsafe { WAKES = [0; 2]; }
        let cap: usize = kani::any(); kani::assume(cap <= 3);
        let c = Counter::new(cap);
        let c2 = c.clone();
        let mut guards: [Option<CounterGuard>; 4] = [None, None, None, None];
        let mut live: usize = 0; let mut parked: Option<usize> = None;
        let (w0, w1) = (waker(0), waker(1));
        let mut step = 0;
        while step < STEPS {
            let op: u8 = kani::any(); let i: usize = kani::any(); kani::assume(i < 4);
            let which = if kani::any() { &c } else { &c2 };          // any clone of the counter is the same counter
            match op % 4 {
                0 => { if guards[i].is_none() { guards[i] = Some(which.get()); live += 1; } }
                1 => {
                    if let Some(g) = guards[i].take() {
                        let before = [wakes(0), wakes(1)];
                        drop(g);
                        if live == cap {
                            if let Some(j) = parked { assert!(wakes(j) > before[j], "the task last answered 'unavailable' is woken when a drop brings the count below the capacity"); parked = None; kani::cover!(true, "woken on release"); }
                        }
                        live -= 1;
                    }
                }
                2 => {
                    let j: usize = if kani::any() { 0 } else { 1 };
                    let cx = Context::from_waker(if j == 0 { &w0 } else { &w1 });
                    let a = which.available(&cx);
                    assert!(a == (live < cap), "available exactly when fewer guards than the capacity are alive");
                    if !a { parked = Some(j); }
                }
                _ => { assert!(which.total() == live, "total equals the number of live guards"); }
            }
            assert!(c.total() == live);
            step += 1;
        }
        kani::cover!(live == 3, "three live guards");
        core::mem::forget(guards); core::mem::forget((c, c2));
    }
    #[kani::proof] #[kani::unwind(8)] fn c17_counter_seq_6() { counter_seq::<6>() }
    #[cfg(feature = "thorough")] #[kani::proof] #[kani::unwind(12)] fn c17_counter_seq_9() { counter_seq::<9>() }

    fn local_waker_seq<const STEPS: usize>() {
        unsafe { WAKES = [0; 2]; }
        let lw = LocalWaker::new();
        let (w0, w1) = (waker(0), waker(1));
        let mut slot: Option<usize> = None; let mut exp = [0u8; 2];
        let mut step = 0;
        while step < STEPS {
            let op: u8 = kani::any();
            match op % 3 {
                0 => {
                    let j: usize = if kani::any() { 0 } else { 1 };
                    let had = lw.register(if j == 0 { &w0 } else { &w1 });
                    assert!(had == slot.is_some(), "register reports whether a waker was already registered");
                    slot = Some(j);
                }
                1 => { lw.wake(); if let Some(j) = slot.take() { exp[j] += 1; } }
                _ => {
                    let t = lw.take();
                    assert!(t.is_some() == slot.is_some(), "take returns the registered waker");
                    if let Some(w) = t { w.wake(); if let Some(j) = slot.take() { exp[j] += 1; } }
                }
            }
            assert!(wakes(0) == exp[0] && wakes(1) == exp[1], "wake wakes the most recently registered waker exactly once");
            step += 1;
        }
        kani::cover!(exp[0] >= 1 && exp[1] >= 1, "both wakers woken");
        core::mem::forget(lw);
    }
    #[kani::proof] #[kani::unwind(8)] fn c17_local_waker_seq_6() { local_waker_seq::<6>() }
}
