//! Kani harnesses for C11 (combinators compute the documented composition) and C12 (readiness / polling contracts).
//! Real actix-service; leaves are scripted services whose scripts (Pending counts, Ok/Err, payloads, mapper constants) are
//! symbolic. One harness per concrete combinator tree (a generic function is instantiated per tree).
#![allow(unused, static_mut_refs)]
#[cfg(kani)]
mod h {
    use actix_service::{apply_cfg, apply_cfg_factory, apply_fn, apply_fn_factory, boxed, map_config, fn_service, Service, ServiceExt, ServiceFactory, ServiceFactoryExt, Transform};
    use core::{cell::Cell, future::Future, pin::Pin, task::{Context, Poll, RawWaker, RawWakerVTable, Waker}};
    use std::rc::Rc;

    // ---------------------------------------------------------------- instrumentation (no heap: fixed statics)
    const NL: usize = 3;
    #[derive(Clone, Copy)]
    struct LeafState { ready_polls: u8, last_ready: u8 /*0 none 1 ok 2 pending 3 err*/, ready_waker: usize, calls: u8, req: u8,
                       fut_started: bool, fut_done: bool, fut_polls: u8, fut_waker: usize, polled_after_done: bool,
                       built: u8, cfg: u8, fac_polls: u8, fac_done: bool }
    const L0: LeafState = LeafState { ready_polls: 0, last_ready: 0, ready_waker: 0, calls: 0, req: 0, fut_started: false, fut_done: false, fut_polls: 0, fut_waker: 0,
                                      polled_after_done: false, built: 0, cfg: 0, fac_polls: 0, fac_done: false };
    static mut ST: [LeafState; NL] = [L0; NL];
    fn st(i: usize) -> &'static mut LeafState { unsafe { &mut ST[i] } }
    fn reset() { unsafe { ST = [L0; NL]; } }

    fn waker(id: usize) -> Waker {
        fn cl(p: *const ()) -> RawWaker { RawWaker::new(p, &VT) }
        fn no(_: *const ()) {}
        static VT: RawWakerVTable = RawWakerVTable::new(cl, no, no, no);
        unsafe { Waker::from_raw(RawWaker::new(id as *const (), &VT)) }
    }
    fn wid(cx: &Context<'_>) -> usize { cx.waker().data() as usize }

    /// Script of one leaf: readiness = an arbitrary answer per poll for the first three polls (0 = Ready(Ok), 1 = Pending,
    /// 2 = Ready(Err(rerr)); readiness may regress from ready to pending), Ready(Ok) afterwards; call future = Pending^call_pend
    /// then Ok(req + add) | Err(cerr).
    #[derive(Clone, Copy)]
    struct Script { rs: [u8; 3], rerr: u8, call_pend: u8, call_err: bool, cerr: u8, add: u8 }
    fn any_script() -> Script {
        let s = Script { rs: kani::any(), rerr: kani::any(), call_pend: kani::any(), call_err: kani::any(), cerr: kani::any(), add: kani::any() };
        kani::assume(s.rs[0] <= 2 && s.rs[1] <= 2 && s.rs[2] <= 2 && s.call_pend <= 2);
        s
    }
    impl Script { fn out(&self, req: u8) -> Result<u8, u8> { if self.call_err { Err(self.cerr) } else { Ok(req.wrapping_add(self.add)) } } }

    #[derive(Clone, Copy)]
    struct Leaf(usize, Script);
    struct LeafFut { idx: usize, left: u8, out: Result<u8, u8> }
    impl Service<u8> for Leaf {
        type Response = u8; type Error = u8; type Future = LeafFut;
        fn poll_ready(&self, cx: &mut Context<'_>) -> Poll<Result<(), u8>> {
            let s = st(self.0); s.ready_waker = wid(cx);
            let a = if (s.ready_polls as usize) < 3 { self.1.rs[s.ready_polls as usize] } else { 0 };
            s.ready_polls += 1;
            match a {
                1 => { s.last_ready = 2; Poll::Pending }
                2 => { s.last_ready = 3; Poll::Ready(Err(self.1.rerr)) }
                _ => { s.last_ready = 1; Poll::Ready(Ok(())) }
            }
        }
        fn call(&self, req: u8) -> LeafFut {
            let s = st(self.0); s.calls += 1; s.req = req; s.fut_started = true;
            LeafFut { idx: self.0, left: self.1.call_pend, out: self.1.out(req) }
        }
    }
    impl Future for LeafFut {
        type Output = Result<u8, u8>;
        fn poll(mut self: Pin<&mut Self>, cx: &mut Context<'_>) -> Poll<Self::Output> {
            let s = st(self.idx);
            if s.fut_done { s.polled_after_done = true; }
            s.fut_polls += 1; s.fut_waker = wid(cx);
            if self.left > 0 { self.left -= 1; return Poll::Pending; }
            s.fut_done = true;
            Poll::Ready(self.out)
        }
    }

    /// Poll `fut` to completion with a fresh waker identity on every poll, checking the polling contract after every poll.
    fn drive<F: Future<Output = Result<u8, u8>>>(fut: F, nleaves: usize) -> Result<u8, u8> {
        let mut fut = core::pin::pin!(fut);
        let mut k = 1usize;
        while k <= 8 {
            let w = waker(k); let mut cx = Context::from_waker(&w);
            match fut.as_mut().poll(&mut cx) {
                Poll::Ready(r) => return r,
                Poll::Pending => {
                    let mut pending_inner = false; let mut i = 0;
                    while i < nleaves {
                        let s = st(i);
                        if s.fut_started && !s.fut_done {
                            pending_inner = true;
                            assert!(s.fut_waker == k, "C12: a still-pending inner future was polled with the current waker");
                        }
                        i += 1;
                    }
                    assert!(pending_inner, "C12: the combined future is pending only while an inner future is pending");
                }
            }
            k += 1;
        }
        kani::assume(false); unreachable!()
    }
    fn contract(nleaves: usize) {
        let mut i = 0;
        while i < nleaves { let s = st(i); assert!(!s.polled_after_done, "C12: no poll after completion"); assert!(s.calls <= 1, "C12: a stage is invoked at most once"); i += 1; }
    }

    // ---------------------------------------------------------------- C11: service combinators
    macro_rules! tree {
        ($name:ident, $n:expr, |$a:ident, $b:ident, $c:ident, $k:ident| $build:expr, |$ra:ident, $rb:ident, $rc:ident, $kk:ident, $req:ident| $expect:expr, $second_runs_iff:expr) => {
            #[kani::proof]
            #[kani::unwind(10)]
            fn $name() {
                reset();
                let (sa, sb, sc) = (any_script(), any_script(), any_script());
                let $k: u8 = kani::any(); let req: u8 = kani::any();
                let ($a, $b, $c) = (Leaf(0, sa), Leaf(1, sb), Leaf(2, sc));
                let svc = $build;
                let got = drive(svc.call(req), $n);
                let ($ra, $rb, $rc, $kk, $req) = (sa, sb, sc, $k, req);
                let want: Result<u8, u8> = $expect;
                assert!(got == want, "C11: the combinator yields the response/error of the reference composition");
                contract($n);
                if $n >= 2 && $second_runs_iff { assert!((st(1).calls == 1) == sa.out(req).is_ok(), "C11: the second stage runs iff the first succeeded"); }
                kani::cover!(got.is_ok(), "ok"); kani::cover!(got.is_err(), "err");
            }
        };
    }
    fn k_add(x: u8, k: u8) -> u8 { x.wrapping_add(k) }
    tree!(c11_and_then, 2, |a, b, c, k| a.and_then(b), |sa, sb, sc, k, req| sa.out(req).and_then(|x| sb.out(x)), true);
    tree!(c11_map, 1, |a, b, c, k| a.map(move |x| k_add(x, k)), |sa, sb, sc, k, req| sa.out(req).map(|x| k_add(x, k)), false);
    tree!(c11_map_err, 1, |a, b, c, k| a.map_err(move |e| k_add(e, k)), |sa, sb, sc, k, req| sa.out(req).map_err(|e| k_add(e, k)), false);
    tree!(c11_and_then_map, 2, |a, b, c, k| a.and_then(b).map(move |x| k_add(x, k)), |sa, sb, sc, k, req| sa.out(req).and_then(|x| sb.out(x)).map(|x| k_add(x, k)), true);
    tree!(c11_map_and_then, 2, |a, b, c, k| a.map(move |x| k_add(x, k)).and_then(b), |sa, sb, sc, k, req| sa.out(req).map(|x| k_add(x, k)).and_then(|x| sb.out(x)), false);
    tree!(c11_and_then_map_err, 2, |a, b, c, k| a.and_then(b).map_err(move |e| k_add(e, k)), |sa, sb, sc, k, req| sa.out(req).and_then(|x| sb.out(x)).map_err(|e| k_add(e, k)), true);
    // measured on 2026-09-27: does not fit the thorough wall cap on this machine (time-out after 40 min / CBMC out of memory): kept
    // for reference under its own feature, not part of any tier
    #[cfg(feature = "oversize")]
    tree!(c11_and_then_and_then, 3, |a, b, c, k| a.and_then(b).and_then(c), |sa, sb, sc, k, req| sa.out(req).and_then(|x| sb.out(x)).and_then(|x| sc.out(x)), true);
    tree!(c11_apply_fn, 1, |a, b, c, k| apply_fn(a, move |r: u8, s: &Leaf| s.call(k_add(r, k))), |sa, sb, sc, k, req| sa.out(k_add(req, k)), false);
    tree!(c11_boxed, 2, |a, b, c, k| boxed::service(a.and_then(b)), |sa, sb, sc, k, req| sa.out(req).and_then(|x| sb.out(x)), true);
    tree!(c11_rc_service, 1, |a, b, c, k| boxed::rc_service(a.map(move |x| k_add(x, k))), |sa, sb, sc, k, req| sa.out(req).map(|x| k_add(x, k)), false);
    tree!(c11_rc_wrapper, 2, |a, b, c, k| Rc::new(a.and_then(b)), |sa, sb, sc, k, req| sa.out(req).and_then(|x| sb.out(x)), true);
    tree!(c11_box_wrapper, 1, |a, b, c, k| Box::new(a.map_err(move |e| k_add(e, k))), |sa, sb, sc, k, req| sa.out(req).map_err(|e| k_add(e, k)), false);
    tree!(c11_refcell_wrapper, 1, |a, b, c, k| core::cell::RefCell::new(a), |sa, sb, sc, k, req| sa.out(req), false);
    tree!(c11_ref_wrapper, 2, |a, b, c, k| { let inner: &'static _ = Box::leak(Box::new(a.and_then(b))); inner }, |sa, sb, sc, k, req| sa.out(req).and_then(|x| sb.out(x)), true);

    // ---------------------------------------------------------------- C12: readiness
    macro_rules! ready_tree {
        ($name:ident, $n:expr, |$a:ident, $b:ident, $k:ident| $build:expr, $maps_err_of:expr) => {
            #[kani::proof]
            #[kani::unwind(10)]
            fn $name() {
                reset();
                let (sa, sb) = (any_script(), any_script());
                let $k: u8 = kani::any();
                let ($a, $b) = (Leaf(0, sa), Leaf(1, sb));
                let svc = $build;
                let mut round = 1usize;
                while round <= 6 {
                    let w = waker(round); let mut cx = Context::from_waker(&w);
                    match svc.poll_ready(&mut cx) {
                        Poll::Ready(Ok(())) => {
                            let mut i = 0; while i < $n { assert!(st(i).last_ready == 1 && st(i).ready_waker == round, "C12: ready only if every inner service reported ready in this poll"); i += 1; }
                            kani::cover!(round > 1, "ready after pending"); return;
                        }
                        Poll::Ready(Err(e)) => {
                            // the error of the inner service that failed, through the tree's error mapper
                            let fa = st(0).last_ready == 3; let fb = $n > 1 && st(1).last_ready == 3;
                            assert!(fa || fb, "C12: an error is reported only if an inner readiness check failed");
                            let raw = if fa { sa.rerr } else { sb.rerr };
                            let f: fn(u8, u8) -> u8 = $maps_err_of;
                            assert!(e == f(raw, $k), "C12: the inner readiness error is reported (mapped where applicable)");
                            kani::cover!(true, "readiness error"); return;
                        }
                        Poll::Pending => {
                            let mut i = 0; let mut some = false;
                            while i < $n {
                                let s = st(i);
                                if s.last_ready == 2 { some = true; }
                                // not known to be ready (pending, or not asked yet) => it must hold the current waker, otherwise its wake-up is lost
                                if s.last_ready != 1 || s.ready_waker != round { assert!(s.ready_waker == round, "C12: every still-pending inner service was polled with the current waker"); }
                                assert!(s.last_ready != 3, "C12: an inner readiness error is never swallowed into Pending");
                                i += 1;
                            }
                            assert!(some, "C12: pending only while an inner service is pending");
                        }
                    }
                    round += 1;
                }
                kani::assume(false);
            }
        };
    }
    ready_tree!(c12_ready_and_then, 2, |a, b, k| a.and_then(b), |e, k| e);
    ready_tree!(c12_ready_map, 1, |a, b, k| a.map(move |x| k_add(x, k)), |e, k| e);
    ready_tree!(c12_ready_map_err, 1, |a, b, k| a.map_err(move |e| k_add(e, k)), |e, k| k_add(e, k));
    ready_tree!(c12_ready_and_then_map_err, 2, |a, b, k| a.and_then(b).map_err(move |e| k_add(e, k)), |e, k| k_add(e, k));
    ready_tree!(c12_ready_apply_fn, 1, |a, b, k| apply_fn(a, move |r: u8, s: &Leaf| s.call(r)), |e, k| e);
    ready_tree!(c12_ready_boxed, 2, |a, b, k| boxed::service(a.and_then(b)), |e, k| e);
    ready_tree!(c12_ready_rc, 2, |a, b, k| Rc::new(a.and_then(b)), |e, k| e);

    // ---------------------------------------------------------------- C11: factory forms
    #[derive(Clone, Copy)]
    struct FScript { pend: u8, fail: bool, ierr: u8 }
    fn any_fscript() -> FScript { let s = FScript { pend: kani::any(), fail: kani::any(), ierr: kani::any() }; kani::assume(s.pend <= 2); s }
    #[derive(Clone, Copy)]
    struct LeafFactory(usize, FScript, Script);
    struct FacFut { idx: usize, left: u8, fs: FScript, sc: Script }
    impl ServiceFactory<u8> for LeafFactory {
        type Response = u8; type Error = u8; type Config = u8; type Service = Leaf; type InitError = u8; type Future = FacFut;
        fn new_service(&self, cfg: u8) -> FacFut { let s = st(self.0); s.built += 1; s.cfg = cfg; FacFut { idx: self.0, left: self.1.pend, fs: self.1, sc: self.2 } }
    }
    impl Future for FacFut {
        type Output = Result<Leaf, u8>;
        fn poll(mut self: Pin<&mut Self>, cx: &mut Context<'_>) -> Poll<Self::Output> {
            let s = st(self.idx);
            if s.fac_done { s.polled_after_done = true; }
            s.fac_polls += 1;
            if self.left > 0 { self.left -= 1; return Poll::Pending; }
            s.fac_done = true;
            if self.fs.fail { Poll::Ready(Err(self.fs.ierr)) } else { Poll::Ready(Ok(Leaf(self.idx, self.sc))) }
        }
    }
    fn drive_init<S, F: Future<Output = Result<S, u8>>>(fut: F) -> Result<S, u8> {
        let mut fut = core::pin::pin!(fut); let mut k = 1usize;
        while k <= 8 { let w = waker(k); let mut cx = Context::from_waker(&w); if let Poll::Ready(r) = fut.as_mut().poll(&mut cx) { return r; } k += 1; }
        kani::assume(false); unreachable!()
    }
    macro_rules! ftree {
        ($name:ident, $n:expr, |$fa:ident, $fb:ident, $k:ident| $build:expr, |$cfg:ident, $kk:ident| $cfg_seen:expr,
         |$ia:ident, $ib:ident, $k3:ident| $init_expect:expr, |$ra:ident, $rb:ident, $k2:ident, $req:ident| $expect:expr) => {
            #[kani::proof]
            #[kani::unwind(10)]
            fn $name() {
                reset();
                let (fsa, fsb) = (any_fscript(), any_fscript()); let (sa, sb) = (any_script(), any_script());
                let $k: u8 = kani::any(); let cfg: u8 = kani::any(); let req: u8 = kani::any();
                let ($fa, $fb) = (LeafFactory(0, fsa, sa), LeafFactory(1, fsb, sb));
                let fac = $build;
                let built = drive_init(fac.new_service(cfg));
                let ($ia, $ib, $k3) = (fsa, fsb, $k);
                let init_want: Option<u8> = $init_expect;          // Some(e) = the first init error
                match built {
                    Err(e) => { assert!(init_want == Some(e), "C11: a factory fails with the first init error (mapped where applicable)"); kani::cover!(true, "init error"); }
                    Ok(svc) => {
                        assert!(init_want.is_none(), "C11: init succeeds iff every inner factory succeeds");
                        let mut i = 0; while i < $n { assert!(st(i).built == 1, "C11: each inner service is built exactly once"); i += 1; }
                        let ($cfg, $kk) = (cfg, $k); let seen: u8 = $cfg_seen;
                        let mut i = 0; while i < $n { assert!(st(i).cfg == seen, "C11: inner factories get the supplied config"); i += 1; }
                        let got = drive(svc.call(req), $n);
                        let ($ra, $rb, $k2, $req) = (sa, sb, $k, req);
                        let want: Result<u8, u8> = $expect;
                        assert!(got == want, "C11: the built service computes the reference composition");
                        contract($n);
                        kani::cover!(got.is_ok(), "built ok");
                    }
                }
            }
        };
    }
    /// "first" init error = first in time: both init futures are polled in every round (a before b), so the one that fails
    /// in the earlier round wins, a on a tie
    fn first_err(a: FScript, b: Option<FScript>) -> Option<u8> {
        match b {
            None => if a.fail { Some(a.ierr) } else { None },
            Some(b) => match (a.fail, b.fail) {
                (true, true) => if a.pend <= b.pend { Some(a.ierr) } else { Some(b.ierr) },
                (true, false) => Some(a.ierr), (false, true) => Some(b.ierr), (false, false) => None,
            },
        }
    }
    ftree!(c11_fac_and_then, 2, |fa, fb, k| fa.and_then(fb), |cfg, k| cfg, |ia, ib, k| first_err(ia, Some(ib)), |sa, sb, k, req| sa.out(req).and_then(|x| sb.out(x)));
    ftree!(c11_fac_map, 1, |fa, fb, k| fa.map(move |x| k_add(x, k)), |cfg, k| cfg, |ia, ib, k| first_err(ia, None), |sa, sb, k, req| sa.out(req).map(|x| k_add(x, k)));
    ftree!(c11_fac_map_err, 1, |fa, fb, k| fa.map_err(move |e| k_add(e, k)), |cfg, k| cfg, |ia, ib, k| first_err(ia, None), |sa, sb, k, req| sa.out(req).map_err(|e| k_add(e, k)));
    ftree!(c11_fac_map_init_err, 1, |fa, fb, k| fa.map_init_err(move |e| k_add(e, k)), |cfg, k| cfg, |ia, ib, k| first_err(ia, None).map(|e| k_add(e, k)), |sa, sb, k, req| sa.out(req));
    ftree!(c11_fac_map_config, 1, |fa, fb, k| map_config(fa, move |c: u8| k_add(c, k)), |cfg, k| k_add(cfg, k), |ia, ib, k| first_err(ia, None), |sa, sb, k, req| sa.out(req));
    ftree!(c11_fac_apply_fn, 1, |fa, fb, k| apply_fn_factory(fa, move |r: u8, s: &Leaf| s.call(k_add(r, k))), |cfg, k| cfg, |ia, ib, k| first_err(ia, None), |sa, sb, k, req| sa.out(k_add(req, k)));
    // measured on 2026-09-27: does not fit the thorough wall cap on this machine (time-out after 40 min / CBMC out of memory): kept
    // for reference under its own feature, not part of any tier
    #[cfg(feature = "oversize")]
    ftree!(c11_fac_boxed, 2, |fa, fb, k| boxed::factory(fa.and_then(fb)), |cfg, k| cfg, |ia, ib, k| first_err(ia, Some(ib)), |sa, sb, k, req| sa.out(req).and_then(|x| sb.out(x)));

    // apply_cfg_factory(factory, f): build the inner service (unit config), WAIT until it reports ready, then hand (cfg, &service) to
    // `f`; an inner init error or a readiness error is the init error; `f` never sees a service that has not reported ready
    static mut CFG_F: (u8, u8, u8) = (0, 0, 0);      // (times f was called, cfg it saw, the leaf's last readiness answer at that moment)
    fn first_ready_answer(s: Script) -> u8 { let mut i = 0; while i < 3 { if s.rs[i] != 1 { return s.rs[i]; } i += 1; } 0 }
    #[kani::proof]
    #[kani::unwind(5)]
    fn c11_fac_apply_cfg_factory() {
        reset(); unsafe { CFG_F = (0, 0, 0); }
        let fsa = any_fscript(); let (sa, sb) = (any_script(), any_script()); let cfg: u8 = kani::any();
        kani::assume(fsa.pend == 0 && sa.rs[1] != 1 && sa.rs[2] == 0);          // at most one pending round (the first readiness poll) before the outcome is known
        let inner = map_config(LeafFactory(0, fsa, sa), move |_: ()| 7u8);
        let fac = apply_cfg_factory(inner, move |c: u8, s: &Leaf| {
            unsafe { CFG_F = (CFG_F.0 + 1, c, st(0).last_ready); }
            core::future::ready(Ok::<Leaf, u8>(Leaf(1, sb)))
        });
        let built = {
            let mut fut = core::pin::pin!(fac.new_service(cfg)); let mut k = 1usize; let mut out = None;
            while k <= 3 { let w = waker(k); let mut cx = Context::from_waker(&w); if let Poll::Ready(r) = fut.as_mut().poll(&mut cx) { out = Some(r); break; } k += 1; }
            match out { Some(r) => r, None => { assert!(false, "C11: the factory future completes once the inner service is built and ready"); return; } }
        };
        let called = unsafe { CFG_F };
        let ans = first_ready_answer(sa);
        match built {
            Err(e) => {
                assert!(called.0 == 0, "C11: the configure function is not called when the inner service failed to build or to become ready");
                if fsa.fail { assert!(e == fsa.ierr, "C11: an inner init error is the init error"); }
                else { assert!(ans == 2 && e == sa.rerr, "C11: a readiness error of the inner service is the init error"); }
                kani::cover!(!fsa.fail, "readiness error during init");
            }
            Ok(svc) => {
                assert!(!fsa.fail && ans == 0, "C11: init succeeds only if the inner service was built and became ready");
                assert!(called.0 == 1 && called.1 == cfg, "C11: the configure function is called once with the supplied config");
                assert!(called.2 == 1, "C11: the configure function sees the inner service only after it reported ready");
                assert!(st(0).built == 1 && st(0).cfg == 7, "C11: the inner service is built once with the unit config");
                assert!(svc.0 == 1, "C11: the configured service is the one the configure function returned");
                kani::cover!(sa.rs[0] == 1, "configured after a pending readiness poll");
            }
        }
    }

    // Transform application: a transform that adds `k` to the request before handing it to the wrapped service
    #[derive(Clone, Copy)] struct AddT(u8);
    struct AddS<S>(S, u8);
    impl<S: Service<u8, Response = u8, Error = u8>> Service<u8> for AddS<S> {
        type Response = u8; type Error = u8; type Future = S::Future;
        fn poll_ready(&self, cx: &mut Context<'_>) -> Poll<Result<(), u8>> { self.0.poll_ready(cx) }
        fn call(&self, req: u8) -> S::Future { self.0.call(k_add(req, self.1)) }
    }
    impl<S: Service<u8, Response = u8, Error = u8>> Transform<S, u8> for AddT {
        type Response = u8; type Error = u8; type Transform = AddS<S>; type InitError = u8; type Future = core::future::Ready<Result<AddS<S>, u8>>;
        fn new_transform(&self, s: S) -> Self::Future { core::future::ready(Ok(AddS(s, self.0))) }
    }
    ftree!(c11_fac_transform, 1, |fa, fb, k| actix_service::apply(AddT(k), fa), |cfg, k| cfg, |ia, ib, k| first_err(ia, None), |sa, sb, k, req| sa.out(k_add(req, k)));
}
