#!/usr/bin/env python3
"""mirsym: symbolic executor for a subset of rustc's textual MIR (engine S of /verif).

Scalars are z3 bit-vectors at the Rust widths, the heap is a concrete object graph per path, every branch on a
symbolic value is a case split whose feasibility z3 decides (depth-first by re-execution with decision prefixes).
Anything not understood raises Unknown -> the check is inconclusive, never a pass."""
import re, sys, copy, time
import z3

# ----------------------------------------------------------------------------- parsing

SRC_ROOTS = ['/repo/', '']

class Fn:
    def __init__(self, name, header):
        self.name = name; self.header = header
        self.nargs = 0; self.types = {}; self.blocks = {}; self.impl_loc = None

def split_top(s, sep=','):
    out, depth, cur, i = [], 0, '', 0
    in_str = False
    while i < len(s):
        c = s[i]
        if in_str:
            cur += c
            if c == '\\': cur += s[i+1]; i += 1
            elif c == '"': in_str = False
        elif c == '"': in_str = True; cur += c
        elif c in '([{<' and not (c == '<' and s[i-1:i] in (' ', '')): depth += 1; cur += c
        elif c in ')]}' : depth -= 1; cur += c
        elif c == '>' and s[i-1:i] not in ('-', '=') and depth > 0 and '<' in cur: depth -= 1; cur += c
        elif c == sep and depth == 0: out.append(cur.strip()); cur = ''
        else: cur += c
        i += 1
    if cur.strip(): out.append(cur.strip())
    return out

def parse_mir(text):
    fns = {}
    lines = text.split('\n')
    i = 0
    while i < len(lines):
        ln = lines[i]
        if ln.startswith('const ') and ln.rstrip().endswith('= {'):
            ln = 'fn ' + ln[6:ln.rindex(': ')] + '() -> X {'
        if ln.startswith('fn ') and ln.rstrip().endswith('{'):
            header = ln
            name = ln[3:ln.index('(')]
            f = Fn(name, header)
            m = re.search(r'<impl at ([^:>]+):(\d+):(\d+): (\d+):(\d+)>', name)
            if m: f.impl_loc = (m.group(1), int(m.group(2)), int(m.group(3)), int(m.group(5)))
            args = re.findall(r'_(\d+): ', header[header.index('('):])
            f.nargs = max([int(a) for a in args], default=0)
            for am in re.finditer(r'_(\d+): (.*?)(?=, _\d+: |\) -> )', header[header.index('('):]):
                f.types[int(am.group(1))] = am.group(2)
            rm = re.search(r'\) -> (.*) \{$', header)
            f.types[0] = rm.group(1) if rm else '()'
            i += 1
            cur = None
            while i < len(lines) and lines[i] != '}':
                l = lines[i].strip()
                m = re.match(r'let (mut )?_(\d+): (.*);$', l)
                if m: f.types[int(m.group(2))] = m.group(3)
                m = re.match(r'bb(\d+)( \(cleanup\))?: \{$', l)
                if m:
                    cur = []; f.blocks[int(m.group(1))] = cur
                elif l == '}' : cur = None if cur is not None and lines[i].startswith('    }') else cur
                elif cur is not None and l:
                    cur.append(l)
                i += 1
            # duplicate names (e.g. two `SendError` ctor shims): keep first
            fns.setdefault(name, f)
        i += 1
    return fns

# places ---------------------------------------------------------------------------
def match_paren(s, i):
    d = 0
    for j in range(i, len(s)):
        if s[j] == '(': d += 1
        elif s[j] == ')':
            d -= 1
            if d == 0: return j
    raise ValueError('unbalanced ' + s)

_PP = {}
def parse_place(s):
    r = _PP.get(s)
    if r is None:
        r = _PP[s] = _parse_place(s)
    return r

def _parse_place(s):
    """returns (base_local, [proj...]) ; proj = ('deref',), ('field',n), ('downcast',name), ('index',operand_str)"""
    s = s.strip()
    projs = []
    def go(s):
        s = s.strip()
        if s.startswith('('):
            j = match_paren(s, 0)
            inner, rest = s[1:j], s[j+1:]
            base, pr = inner_place(inner)
        else:
            m = re.match(r'_(\d+)', s)
            base, pr, rest = int(m.group(1)), [], s[m.end():]
        while rest:
            if rest.startswith('['):
                k = rest.index(']')
                pr = pr + [('index', rest[1:k])]; rest = rest[k+1:]
            elif re.match(r'\.(\d+)', rest):
                m = re.match(r'\.(\d+)', rest); pr = pr + [('field', int(m.group(1)))]; rest = rest[m.end():]
            else:
                raise ValueError('place rest ' + rest)
        return base, pr
    def inner_place(inner):
        inner = inner.strip()
        if inner.startswith('*'):
            b, p = go(inner[1:]); return b, p + [('deref',)]
        # top-level " as Variant"
        d = 0
        for k in range(len(inner)):
            c = inner[k]
            if c == '(': d += 1
            elif c == ')': d -= 1
            elif d == 0 and inner.startswith(' as ', k):
                b, p = go(inner[:k]); return b, p + [('downcast', inner[k+4:].strip())]
        # top-level ".N: TYPE"
        d = 0
        for k in range(len(inner)):
            c = inner[k]
            if c == '(': d += 1
            elif c == ')': d -= 1
            elif d == 0 and c == '.':
                m = re.match(r'\.(\d+): ', inner[k:])
                if m:
                    b, p = go(inner[:k]); return b, p + [('field', int(m.group(1)))]
        return go(inner)
    return go(s)

# ----------------------------------------------------------------------------- values
class Cell:
    __slots__ = ('v',)
    def __init__(self, v=None): self.v = v

class Struct:
    def __init__(self, name, fields): self.name = name; self.f = [Cell(x) for x in fields]
class Enum:
    def __init__(self, name, variant, fields=()): self.name = name; self.variant = variant; self.f = [Cell(x) for x in fields]
class Tuple(Struct):
    def __init__(self, fields): super().__init__('tuple', fields)
class Array:
    def __init__(self, elems): self.e = [Cell(x) for x in elems]
class Ref:
    def __init__(self, lv): self.lv = lv      # lv: object with get()/set()
class Unit: pass
UNIT = Unit()
class Opaque:
    def __init__(self, what): self.what = what
class ClosureVal:
    def __init__(self, ty): self.ty = ty

class LCell:
    def __init__(self, c): self.c = c
    def get(self): return self.c.v
    def set(self, v): self.c.v = v
class LArrElem:
    def __init__(self, arr, idx): self.arr = arr; self.idx = idx
    def get(self):
        if isinstance(self.idx, int): return self.arr.e[self.idx].v
        r = self.arr.e[-1].v
        for k in range(len(self.arr.e)-2, -1, -1):
            r = z3.If(self.idx == k, self.arr.e[k].v, r)
        return r
    def set(self, v):
        if isinstance(self.idx, int): self.arr.e[self.idx].v = v; return
        for k in range(len(self.arr.e)):
            self.arr.e[k].v = z3.If(self.idx == k, v, self.arr.e[k].v)

VARIANTS = {'SocketAddr': ['V4', 'V6'], 'Option': ['None', 'Some'], 'Result': ['Ok', 'Err'], 'Poll': ['Ready', 'Pending'], 'ControlFlow': ['Continue', 'Break']}

def clone_val(v):
    if isinstance(v, Struct):
        n = copy.copy(v); n.f = [Cell(clone_val(c.v)) for c in v.f]; return n
    if isinstance(v, Enum):
        n = copy.copy(v); n.f = [Cell(clone_val(c.v)) for c in v.f]; return n
    if isinstance(v, Array):
        n = Array([]); n.e = [Cell(clone_val(c.v)) for c in v.e]; return n
    return v   # z3 exprs, refs, model objects (by identity)

INT_W = {'u8': 8, 'i8': 8, 'u16': 16, 'i16': 16, 'u32': 32, 'i32': 32, 'u64': 64, 'i64': 64, 'usize': 64, 'isize': 64, 'u128': 128, 'i128': 128}

_STMT = {}
ENUM_ALT = {}
LATE_MODELS = set()
_OPK = {}
_BVC = {}
def BV(v, w):
    k = (v, w); r = _BVC.get(k)
    if r is None: r = _BVC[k] = z3.BitVecVal(v, w)
    return r
_TRUE = z3.BoolVal(True); _FALSE = z3.BoolVal(False)
def _concrete_binop(op, a, b):
    w = a.size(); m = (1 << w) - 1; x = a.as_long(); y = b.as_long()
    if op == 'Eq': return _TRUE if x == y else _FALSE
    if op == 'Ne': return _TRUE if x != y else _FALSE
    if op == 'Lt': return _TRUE if x < y else _FALSE
    if op == 'Le': return _TRUE if x <= y else _FALSE
    if op == 'Gt': return _TRUE if x > y else _FALSE
    if op == 'Ge': return _TRUE if x >= y else _FALSE
    if op in ('Add', 'AddUnchecked'): return BV((x + y) & m, w)
    if op in ('Sub', 'SubUnchecked'): return BV((x - y) & m, w)
    if op == 'BitAnd': return BV(x & y, w)
    if op == 'BitOr': return BV(x | y, w)
    if op == 'BitXor': return BV(x ^ y, w)
    if op == 'AddWithOverflow': return Tuple([BV((x + y) & m, w), _TRUE if x + y > m else _FALSE])
    if op == 'SubWithOverflow': return Tuple([BV((x - y) & m, w), _TRUE if x < y else _FALSE])
    return None
_RVK = {}
def _simp(e):
    # keep arithmetic over symbolic values in normal form (sums of clock increments cancel), constants stay cheap
    return z3.simplify(e) if z3.is_expr(e) and not z3.is_bv_value(e) else e
_TERM = {}
_BINOPS = ('Eq','Ne','Lt','Le','Gt','Ge','Add','Sub','Mul','Div','Rem','BitAnd','BitOr','BitXor','Shl','Shr',
           'AddWithOverflow','SubWithOverflow','MulWithOverflow','AddUnchecked','SubUnchecked','MulUnchecked','ShlUnchecked','ShrUnchecked')
def _classify_rvalue(s0):
    s = s0.strip()
    m = re.match(r'(\w+)\((.*)\)$', s)
    if m and m.group(1) in _BINOPS:
        ab = split_top(m.group(2))
        if len(ab) == 2: return ('binop', m.group(1), ab[0], ab[1])
    if s.startswith('discriminant('): return ('discr', s[13:-1])
    if s.startswith('&mut ') and not s.startswith('&mut raw'): return ('ref', s[5:])
    if s.startswith('&') and not s.startswith(('&raw', '&mut', '&(fake)')): return ('ref', s[1:])
    if s.startswith(('copy ', 'move ', 'const ', 'no_retag ')) and ' as ' not in s: return ('use', s)
    return ('slow',)

def parse_term(t):
    if t == 'return;': return ('return',)
    if t == 'unreachable;': return ('unreachable',)
    m = re.match(r'goto -> bb(\d+);', t)
    if m: return ('goto', int(m.group(1)))
    m = re.match(r'switchInt\((.*)\) -> \[(.*)\];', t)
    if m:
        targets = []
        for part in m.group(2).split(', '):
            k, tgt = part.split(': '); targets.append((k, int(tgt[2:])))
        return ('switch', m.group(1), targets)
    m = re.match(r'assert\((!?)(.*?), "(.*?)"(, .*)?\) -> \[success: bb(\d+), .*\];', t)
    if m: return ('assert', bool(m.group(1)), m.group(2), m.group(3), int(m.group(5)))
    m = re.match(r'drop\((.*)\) -> \[return: bb(\d+), .*\];', t)
    if m: return ('drop', m.group(1), int(m.group(2)))
    m = re.match(r'(.*) -> (?:\[return: bb(\d+), .*\]|unwind .*);$', t)
    if m and m.group(1).endswith(')'):
        body = m.group(1); d = 0; k = -1
        for i, c in enumerate(body):
            if c == '(': d += 1
            elif c == ')': d -= 1
            elif d == 0 and body.startswith(' = ', i): k = i; break
        dst = body[:k] if k >= 0 else None
        callexpr = body[k+3:] if k >= 0 else body
        d = 0; j = len(callexpr) - 1
        while j >= 0:
            if callexpr[j] == ')': d += 1
            elif callexpr[j] == '(':
                d -= 1
                if d == 0: break
            j -= 1
        return ('call', dst, callexpr[:j], split_top(callexpr[j+1:-1]), int(m.group(2)) if m.group(2) is not None else None)
    return ('?',)
_CCACHE = {}
_CONSTFN = {}
class _AutoCells(list):
    def __getitem__(self, i):
        while len(self) <= i: self.append(Cell(None))
        return list.__getitem__(self, i)
class SavedVars:
    """the locals a coroutine keeps across one suspend point (`((*_x) as variant#N).k` in the state-transformed MIR)"""
    def __init__(self): self.f = _AutoCells()
class CoroutineVal:
    """an `async` block / `async fn` body value: captured variables + resume state (0 = unresumed, 1 = returned, 2 = panicked,
    3.. = suspended at an `.await`) + the locals saved across each suspend point. The body that is executed is the compiler's
    state-transformed MIR of the real block. Its drop glue is a compiler shim that the dump does not contain: dropping a
    coroutine drops nothing in this engine."""
    def __init__(self, ty, fields): self.ty = ty; self.f = [Cell(x) for x in fields]; self.state = 0; self.saved = {}
    def loc(self): return self.ty.split('@', 1)[1].split(' (#')[0].rstrip('}')


class Panic(Exception): pass
class Abort(Exception): pass       # path infeasible / cut
class Unknown(Exception): pass     # unmodelled callee etc -> inconclusive

# ----------------------------------------------------------------------------- executor
def _variants(enums, name, variant):
    vs = enums.get(name)
    if vs is not None and variant in vs: return vs
    for alt in ENUM_ALT.get(name, ()):
        if variant in alt: return alt
    return vs


class Exec:
    def __init__(self, fns, models, structs=None, enums=None, resolver=None):
        self.fns = fns; self.models = models
        self.structs = structs or {}; self.enums = dict(VARIANTS); self.enums.update(enums or {})
        self.resolver = resolver or {}
        self.solver = z3.Solver(); self.solver.set('timeout', 1500)
        self.decisions = []; self.dpos = 0; self.pending = []
        self.steps = 0
        self.log = []
        self.nq = 0; self.tsolve = 0.0; self.nsel = 0; self.fn_used = set(); self.hist = []; self.sel = {}
        self._constfn = _CONSTFN.setdefault(id(fns), {})
        self.step_budget = 200000

    def check_sat(self, *conds):
        """is (path condition and conds) satisfiable? returns z3 result"""
        t = time.time(); self.solver.push()
        for c in conds: self.solver.add(c)
        r = self.solver.check(); self.nq += 1
        self.last_model = self.solver.model() if r == z3.sat else None
        if r == z3.unknown:
            # the incremental core gave up within its time slice: decide the same query with the one-shot bit-blasting solver
            s2 = z3.SolverFor('QF_BV'); s2.set('timeout', 120000)
            s2.add(*self.solver.assertions())
            r = s2.check(); self.nq2 = getattr(self, 'nq2', 0) + 1
            self.last_model = s2.model() if r == z3.sat else None
        self.solver.pop(); self.tsolve += time.time() - t
        if r == z3.unknown: raise Unknown('solver unknown')
        return r

    def pick(self, name, options):
        """environment / schedule choice as a solver variable: a fresh selector `name#k` ranges over the options;
        each feasible value is one case split and the selector's value is part of the path condition (so a model of a
        violated assertion contains the schedule)."""
        sname = '%s#%d' % (name, self.nsel); self.nsel += 1
        if self.dpos < len(self.decisions):
            # replay of a recorded choice: the selector is a fresh variable that occurs nowhere else, so its
            # constraint is kept beside the solver (self.sel) and reported with the model
            k = self.decisions[self.dpos]; self.dpos += 1
            self.sel[sname] = k
            return options[k]
        sel = z3.BitVec(sname, 8)
        lab = self.choose([(i, sel == i) for i in range(len(options))])
        return options[lab]

    # -- branching by re-execution
    def choose(self, options):
        """options: list of (label, z3 cond or True/False). Returns the chosen label. A decision is the index into
        `options`; on replay of a prefix the recorded branch is taken without re-asking the solver."""
        if self.dpos < len(self.decisions):
            k = self.decisions[self.dpos]; self.dpos += 1
            lab, cond = options[k]
            if cond is not True: self.solver.add(cond)
            return lab
        feas = []
        for i, (lab, cond) in enumerate(options):
            if cond is True: feas.append(i); continue
            if cond is False: continue
            if self.check_sat(cond) == z3.sat: feas.append(i)
        if not feas: raise Abort()
        for alt in feas[1:]:
            self.pending.append(self.decisions[:self.dpos] + [alt])
        k = feas[0]
        self.decisions.append(k); self.dpos += 1
        lab, cond = options[k]
        if cond is not True: self.solver.add(cond)
        return lab

    def truth(self, b):
        b = z3.simplify(b) if z3.is_expr(b) else b
        if b is True or (z3.is_expr(b) and z3.is_true(b)): return True
        if b is False or (z3.is_expr(b) and z3.is_false(b)): return False
        return self.choose([(True, b), (False, z3.Not(b))])

    # -- operands / places
    def const(self, s, ty_hint=None):
        s = s.strip()
        if s in ('true', 'false'): return z3.BoolVal(s == 'true')
        if s == '()': return UNIT
        m = re.match(r'(-?\d+)_(\w+)$', s)
        if m: return z3.BitVecVal(int(m.group(1)), INT_W[m.group(2)])
        if s.startswith('ZeroSized: '): return ClosureVal(s[len('ZeroSized: '):])
        if s.startswith('"') or s.startswith('b"'): return Opaque(s)
        return Opaque('const ' + s)

    def operand(self, fr, s):
        k = _OPK.get(s)
        if k is None: k = _OPK[s] = self._classify_operand(s)
        t = k[0]
        if t == 'copy': return clone_val(self.place(fr, k[1]).get())
        if t == 'move' or t == 'place': return self.place(fr, k[1]).get()
        if t == 'val': return k[1]
        if t == 'constfn':
            f = self.fns.get(k[1])
            if f is not None: return self.run(f, [])
        if t == 'enum': return Enum(k[1], k[2])
        if t == 'closure': return ClosureVal(k[1])
        if t == 'opaque': return Opaque(k[1])
        return self._operand_slow(fr, s)

    def _classify_operand(self, s0):
        s = s0.strip()
        if s.startswith('no_retag '): s = s[9:]
        if s.startswith('copy '): return ('copy', s[5:])
        if s.startswith('move '): return ('move', s[5:])
        if not s.startswith('const '):
            if not s.startswith(('_', '(', '*')): return ('opaque', s)      # a function item used as a value (e.g. an enum constructor passed to map_ok)
            return ('place', s)
        body = s[6:].strip()
        if body in ('true', 'false'): return ('val', z3.BoolVal(body == 'true'))
        if body == '()': return ('val', UNIT)
        m = re.match(r'(-?\d+)_(\w+)$', body)
        if m and m.group(2) in INT_W: return ('val', BV(int(m.group(1)) & ((1 << INT_W[m.group(2)]) - 1), INT_W[m.group(2)]))
        if body.startswith('ZeroSized: '): return ('closure', body[len('ZeroSized: '):])
        if body.startswith('"') or body.startswith('b"'): return ('opaque', body)
        return ('slow',)

    def _operand_slow(self, fr, s):
        s = s.strip()
        if s.startswith('no_retag '): s = s[9:]
        if s.startswith('const ') and not re.match(r'const (-?\d+_\w+|true|false|\(\)|ZeroSized|"|b")', s):
            nm = s[6:].strip()
            hit = self._constfn.get(nm, 0)
            if hit == 0:
                def norm(x):
                    x = self.strip_impl(x); segs = x.split('::')
                    return (segs[0] if len(segs) > 2 else '', tuple(segs[-2:]) if 'promoted' in x else (segs[-1],))
                cands = [f for n, f in self.fns.items() if f.nargs == 0 and '(' not in n and (n == nm or (norm(n)[1] == norm(nm)[1] and (norm(n)[0] in ('', norm(nm)[0]) or norm(nm)[0] == '')))]
                hit = self._constfn[nm] = cands[0] if len(cands) == 1 else None
            if hit is not None: return self.run(hit, [])
            seg = [x for x in self.strip_generics(nm).split('::') if x]
            if len(seg) >= 2 and seg[-2] in self.enums and seg[-1] in self.enums[seg[-2]]: return Enum(seg[-2], seg[-1])
            if seg and seg[-1] == 'PhantomData': return Opaque('phantom')
        if s.startswith('const '): return self.const(s[6:])
        if s.startswith('copy '): return clone_val(self.place(fr, s[5:]).get())
        if s.startswith('move '): return self.place(fr, s[5:]).get()
        return self.place(fr, s).get()

    def place(self, fr, s):
        base, projs = parse_place(s)
        lv = LCell(fr['locals'][base])
        for p in projs:
            v = lv.get()
            if p[0] == 'deref':
                v = self.deref_val(v)
                if not isinstance(v, Ref): raise Unknown('deref of non-ref %r in %s' % (v, s))
                lv = v.lv
            elif p[0] == 'field':
                if hasattr(v, 'is_box'): lv = LCell(Cell(v))
                elif isinstance(v, (Struct, Enum, ClosureVal, CoroutineVal, SavedVars)): lv = LCell(v.f[p[1]])
                elif isinstance(v, Ref) and p[1] == 0: lv = LCell(Cell(v))      # Pin<&mut T>.0 : the Pin constructors are identity models
                else: raise Unknown('field of %r in %s' % (v, s))
            elif p[0] == 'downcast':
                if isinstance(v, CoroutineVal) and p[1].startswith('variant#'):
                    lv = LCell(Cell(v.saved.setdefault(int(p[1][8:]), SavedVars())))
                elif hasattr(v, 'model_downcast'): lv = LCell(Cell(v.model_downcast(p[1])))
                elif not isinstance(v, Enum) or v.variant != p[1]: raise Unknown('bad downcast %s' % s)
            elif p[0] == 'index':
                idx = self.operand(fr, p[1]) if not p[1].startswith('_') else fr['locals'][int(p[1][1:])].v
                if z3.is_expr(idx):
                    idx = z3.simplify(idx)
                    if z3.is_bv_value(idx): idx = idx.as_long()
                if hasattr(v, 'items'):
                    if not isinstance(idx, int): raise Unknown('symbolic index into vec')
                    lv = LCell(v.items[idx])
                else: lv = LArrElem(v, idx)
        return lv

    def deref_val(self, v):
        # smart pointers transparent for `*`
        return v

    # -- rvalues
    def binop(self, op, a, b):
        if z3.is_bv_value(a) and z3.is_bv_value(b) and a.size() == b.size():
            r = _concrete_binop(op, a, b)
            if r is not None: return r
        if op in ('Eq', 'Ne'):
            r = (a == b); return r if op == 'Eq' else z3.Not(r)
        if op == 'Lt': return z3.ULT(a, b)
        if op == 'Le': return z3.ULE(a, b)
        if op == 'Gt': return z3.UGT(a, b)
        if op == 'Ge': return z3.UGE(a, b)
        if op in ('Add', 'AddUnchecked'): return a + b
        if op in ('Sub', 'SubUnchecked'): return a - b
        if op in ('Mul', 'MulUnchecked'): return a * b
        if op == 'BitAnd': return a & b
        if op == 'BitOr': return a | b
        if op == 'BitXor': return a ^ b
        if op in ('Shl', 'ShlUnchecked'): return a << z3.ZeroExt(a.size() - b.size(), b) if b.size() < a.size() else a << z3.Extract(a.size()-1, 0, b)
        if op in ('Shr', 'ShrUnchecked'):
            if b.size() < a.size(): b = z3.ZeroExt(a.size() - b.size(), b)
            elif b.size() > a.size(): b = z3.Extract(a.size() - 1, 0, b)
            return z3.LShR(a, b)
        if op == 'Rem': return z3.URem(a, b)
        if op == 'Div': return z3.UDiv(a, b)
        if op == 'AddWithOverflow':
            w = a.size(); s = z3.ZeroExt(1, a) + z3.ZeroExt(1, b)
            return Tuple([a + b, z3.Extract(w, w, s) == 1])
        if op == 'SubWithOverflow': return Tuple([a - b, z3.ULT(a, b)])
        if op == 'MulWithOverflow':
            w = a.size(); p = z3.ZeroExt(w, a) * z3.ZeroExt(w, b)
            return Tuple([a * b, z3.Extract(2*w-1, w, p) != 0])
        raise Unknown('binop ' + op)

    def rvalue(self, fr, s, dst_ty):
        k = _RVK.get(s)
        if k is None: k = _RVK[s] = _classify_rvalue(s)
        t = k[0]
        if t == 'binop': return self.binop(k[1], self.operand(fr, k[2]), self.operand(fr, k[3]))
        if t == 'use': return self.operand(fr, k[1])
        if t == 'ref': return Ref(self.place(fr, k[1]))
        if t == 'discr':
            v = self.place(fr, k[1]).get()
            if isinstance(v, CoroutineVal): return BV(v.state, 32)
            if hasattr(v, 'model_discriminant'): return BV(v.model_discriminant(), 64)      # a model object standing for an enum value
            if not isinstance(v, Enum): raise Unknown('discriminant of %r' % v)
            return BV(_variants(self.enums, v.name, v.variant).index(v.variant), 64)
        s = s.strip()
        m = re.match(r'(\w+)\((.*)\)$', s)
        if m and m.group(1) in ('Eq','Ne','Lt','Le','Gt','Ge','Add','Sub','Mul','Div','Rem','BitAnd','BitOr','BitXor','Shl','Shr',
                                'AddWithOverflow','SubWithOverflow','MulWithOverflow','AddUnchecked','SubUnchecked','MulUnchecked','ShlUnchecked','ShrUnchecked'):
            a, b = split_top(m.group(2))
            return self.binop(m.group(1), self.operand(fr, a), self.operand(fr, b))
        if m and m.group(1) == 'Not':
            v = self.operand(fr, m.group(2)); return z3.Not(v) if z3.is_bool(v) else ~v
        if s.startswith('discriminant('):
            v = self.place(fr, s[13:-1]).get()
            if not isinstance(v, Enum): raise Unknown('discriminant of %r' % v)
            return z3.BitVecVal(_variants(self.enums, v.name, v.variant).index(v.variant), 64)
        if s.startswith('&raw '):
            s = '&' + s.split(' ', 2)[2]
            if s.startswith('&(fake) '): s = '&' + s[8:]
        if s.startswith('PtrMetadata('):
            t = self.operand(fr, s[12:-1]).lv.get()
            return z3.BitVecVal(len(t.items), 64)
        if s.startswith(('{coroutine@', '{async block@', '{async fn body', '{async closure')):
            j = s.index('}') + 1
            body = s[j:].strip(); fields = []
            if body.startswith('{'):
                for part in split_top(body[1:-1].strip()):
                    k, v = part.split(': ', 1); fields.append(self.operand(fr, v))
            co = CoroutineVal(s[:j], fields); co.maker = fr['fn'].name
            return co
        if s.startswith('{closure@'):
            j = s.index('}') + 1
            cv = ClosureVal(s[:j]); cv.f = []
            body = s[j:].strip()
            if body.startswith('{'):
                for part in split_top(body[1:-1].strip()):
                    k, v = part.split(': ', 1); cv.f.append(Cell(self.operand(fr, v)))
            return cv
        if s.startswith('&mut '): return Ref(self.place(fr, s[5:]))
        if s.startswith('&'): return Ref(self.place(fr, s[1:]))
        m = re.match(r'(.*) as (.*) \((\w+)(\(.*\))?\)$', s)
        if m:
            v = self.operand(fr, m.group(1)); ty = m.group(2); kind = m.group(3)
            if kind == 'IntToInt':
                w = INT_W[ty]
                if z3.is_bool(v): v = z3.If(v, z3.BitVecVal(1, w), z3.BitVecVal(0, w))
                if v.size() < w: return z3.ZeroExt(w - v.size(), v)
                if v.size() > w: return z3.Extract(w-1, 0, v)
                return v
            if hasattr(v, 'is_box'): return Ref(LCell(v.content))
            return v   # pointer coercions: identity
        if s.startswith('(') and s.endswith(')') and not s.startswith('(*') :
            parts = split_top(s[1:-1])
            if s.endswith(',)'): return Tuple([self.operand(fr, p) for p in split_top(s[1:-2])])      # 1-tuple
            if len(parts) >= 2 or s == '()': return Tuple([self.operand(fr, p) for p in parts]) if parts else UNIT
        if s.startswith('['):
            m2 = re.match(r'\[(.*); (\d+)\]$', s)
            if m2:
                v = self.operand(fr, m2.group(1)); return Array([clone_val(v) for _ in range(int(m2.group(2)))])
            return Array([self.operand(fr, p) for p in split_top(s[1:-1])])
        if s.startswith(('copy ', 'move ', 'const ', 'no_retag ')): return self.operand(fr, s)
        # aggregates
        m = re.match(r'([\w:<>, \'&\[\];()]+?) \{ (.*) \}$', s)
        if m:
            name = self.adt_name(m.group(1)); fields = {}
            for part in split_top(m.group(2)):
                k, v = part.split(': ', 1); fields[k] = self.operand(fr, v)
            psegs = [x for x in self.strip_generics(m.group(1)).split('::') if x]
            if len(psegs) >= 2 and psegs[-2] in self.enums and psegs[-1] in (_variants(self.enums, psegs[-2], psegs[-1]) or ()):
                return Enum(psegs[-2], psegs[-1], list(fields.values()))      # struct-like enum variant: fields in declaration order
            order = self.structs.get(name)
            if order is None:
                # a struct whose declaration is generated by a macro (pin_project's Projection): MIR prints aggregate fields in
                # declaration order, which is also the order field projections (.N) refer to
                return Struct(name, list(fields.values()))
            if set(order) != set(fields): raise Unknown('struct layout of %s does not match the aggregate %s' % (name, list(fields)))
            return Struct(name, [fields[k] for k in order])
        if s.endswith(')'):
            d = 0; j = len(s) - 1
            while j >= 0:
                if s[j] == ')': d += 1
                elif s[j] == '(':
                    d -= 1
                    if d == 0: break
                j -= 1
            path = s[:j]; args = split_top(s[j+1:-1])
        else:
            path = s; args = []
        segs = [x for x in re.sub(r'::<[^()]*?>(?=::|$)', '', self.strip_generics(path)).split('::') if x]
        if len(segs) >= 2 and segs[-2] in self.enums and segs[-1] in (_variants(self.enums, segs[-2], segs[-1]) or ()):
            return Enum(segs[-2], segs[-1], [self.operand(fr, a) for a in args])
        if len(segs) == 1:
            owners = [e for e, vs in self.enums.items() if segs[0] in vs]
            if len(owners) == 1: return Enum(owners[0], segs[0], [self.operand(fr, a) for a in args])
        if segs and segs[-1] in self.structs:
            return Struct(segs[-1], [self.operand(fr, a) for a in args])
        if segs and segs[-1] in ('Relaxed', 'SeqCst', 'Acquire', 'Release', 'AcqRel'): return Opaque('ordering')
        if len(segs) >= 2 and segs[-2] == 'ErrorKind' and not args: return Enum('ErrorKind', segs[-1], [])     # std::io::ErrorKind unit variant (never switched on)
        raise Unknown('rvalue ' + s)

    def strip_impl(self, n):
        # accept::<impl at src/accept.rs:40:1: 40:12>::accept::promoted[0] -> accept::Accept::accept::promoted[0] is not derivable; compare tail
        return re.sub(r'<impl at [^>]*>::', '', n)
    def strip_generics(self, p):
        out, d = '', 0
        for c in p:
            if c == '<': d += 1
            elif c == '>': d -= 1
            elif d == 0: out += c
        return out
    def adt_name(self, p): return [x for x in self.strip_generics(p).split('::') if x][-1]

    # -- calls
    def callee_key(self, txt):
        """normalise callee text: strip generics, return ('Type','method') or ('<T as Trait>', ...)"""
        t = txt.strip()
        m = re.match(r'<(.*) as (.*)>::(\w+)', t)
        if m:
            ty = self.adt_name(m.group(1).replace('&mut ', '').replace('&', '')); tr = self.adt_name(m.group(2))
            return (ty, tr, m.group(3))
        segs = [x for x in self.strip_generics(t).split('::') if x]
        return (segs[-2] if len(segs) > 1 else '', None, segs[-1])

    def resolve(self, key):
        ty, tr, meth = key
        if key in self.resolver: return self.fns[self.resolver[key]]
        cands = [f for n, f in self.fns.items() if n.endswith('::' + meth) or n == meth]
        good = []
        for f in cands:
            if f.impl_loc:
                src = self.impl_line(f.impl_loc)
                if '#[derive(' in src:
                    ftr = src[f.impl_loc[2]-1:f.impl_loc[3]-1]
                    fty = self.derive_target(f.impl_loc)
                else:
                    mm = re.match(r'\s*(unsafe )?impl(<.*?>)? (?:(.*?) for )?([\w:]+)', src)
                    if not mm: continue
                    ftr = self.adt_name(mm.group(3)) if mm.group(3) else None
                    fty = self.adt_name(mm.group(4))
                if fty == ty and (tr is None or ftr == tr) and (tr is not None or ftr is None): good.append(f)
            else:
                if f.name.split('::')[-2:-1] == [ty] or (not ty) or f.name.endswith(ty + '::' + meth): good.append(f)
        if len(good) == 1: return good[0]
        if not good and tr is None:
            # free function re-exported under another path (e.g. actix_utils::future::ready -> future::ready::ready)
            free = [f for f in cands if not f.impl_loc and '{closure' not in f.name and '(' not in f.name]
            if len(free) == 1: return free[0]
        return None

    _src = {}
    def derive_target(self, loc):
        self.impl_line(loc)
        for root in SRC_ROOTS:
            lines = self._src.get(root + loc[0])
            if lines:
                for l in lines[loc[1]-1:loc[1]+12]:
                    mm = re.search(r'(?:struct|enum) (\w+)', l)
                    if mm: return mm.group(1)
        return None
    def impl_line(self, loc):
        path, line = loc[0], loc[1]
        for root in SRC_ROOTS:
            try:
                if (root + path) not in self._src: self._src[root + path] = open(root + path).read().split('\n')
                return self._src[root + path][line - 1]
            except OSError: continue
        return ''

    def call(self, callee_txt, args):
        cache = _CCACHE.setdefault(id(self.models), {})
        hit = cache.get(callee_txt)
        if hit is None:
            hit = None
            for pat, fn in self.models:
                if re.search(pat, callee_txt): hit = ('m', fn); break
            if hit is not None and hit[1] in LATE_MODELS:
                # generic fallbacks (identity From/Into, ...) only apply when the dump has no real implementation
                f = self.resolve(self.callee_key(callee_txt))
                if f is not None: hit = ('f', f)
            if hit is None:
                f = self.resolve(self.callee_key(callee_txt))
                if f is None:
                    # inherent impl generated by a macro (pin_project!): `_::<impl T<..>>::m` -> the dumped fn named `..::m` whose receiver is T
                    mm = re.search(r'<impl ((?:\w+::)*)(\w+)(<.*>)?>::(\w+)$', callee_txt)
                    if mm:
                        c = [g for n, g in self.fns.items() if n.endswith('::' + mm.group(4)) and re.search(r'\b%s\b' % mm.group(2), g.types.get(1, ''))]
                        if len(c) > 1 and mm.group(1):      # same type name in several modules: use the full path
                            c = [g for g in c if (mm.group(1) + mm.group(2)) in g.types.get(1, '') or g.name.startswith(mm.group(1))]
                        if len(c) == 1: f = c[0]
                if f is None:
                    # `a::b::Type::method` where several modules define a `Type` (e.g. accept::openssl::Acceptor / accept::rustls_0_23::Acceptor):
                    # the inherent impl that lives in the file of that module
                    mm = re.match(r'^((?:\w+::)+)(\w+)::(\w+)$', self.strip_generics(callee_txt))
                    if mm:
                        modpath = mm.group(1).rstrip(':').replace('::', '/')
                        c = [g for n, g in self.fns.items() if n.endswith('::' + mm.group(3)) and g.impl_loc and (modpath + '.rs') in str(g.impl_loc[0])
                             and re.match(r'\s*impl(<.*?>)? %s\b' % mm.group(2), self.impl_line(g.impl_loc))]
                        if len(c) == 1: f = c[0]
                if f is None: raise Unknown('unmodelled callee ' + callee_txt)
                hit = ('f', f)
            cache[callee_txt] = hit
        if hit[0] == 'm': return hit[1](self, args, callee_txt)
        return self.run(hit[1], args)

    def run(self, f, args):
        fr = {'locals': {}, 'fn': f}
        self.fn_used.add(f.name)
        n = max(list(f.types.keys()) + [f.nargs]) + 1
        for i in range(n): fr['locals'][i] = Cell(None)
        for i, a in enumerate(args): fr['locals'][i+1].v = a
        bb = 0
        while True:
            self.steps += 1
            if self.steps > self.step_budget: raise Unknown('step budget exceeded in ' + f.name)
            blk = f.blocks[bb]
            for st in blk[:-1]:
                try: self.stmt(fr, st)
                except (z3.Z3Exception, TypeError, AttributeError, ValueError, KeyError, IndexError) as e:
                    raise Unknown('cannot execute `%s` in %s bb%d: %r' % (st, f.name, bb, e))
            t = blk[-1]
            pt = _TERM.get(t)
            if pt is None: pt = _TERM[t] = parse_term(t)
            k = pt[0]
            if k == 'return': return fr['locals'][0].v if fr['locals'][0].v is not None else UNIT
            if k == 'goto': bb = pt[1]; continue
            if k == 'unreachable': raise Unknown('reached unreachable in ' + f.name)
            if k == 'switch':
                v = self.operand(fr, pt[1]); targets = pt[2]
                if z3.is_bool(v):
                    if z3.is_true(v): v = BV(1, 8)
                    elif z3.is_false(v): v = BV(0, 8)
                    else: v = z3.If(v, BV(1, 8), BV(0, 8))
                if not z3.is_bv_value(v): v = z3.simplify(v)
                if z3.is_bv_value(v):
                    val = v.as_long(); bb = None
                    for kk, tgt in targets:
                        if kk != 'otherwise' and int(kk) == val: bb = tgt
                    if bb is None: bb = dict(targets)['otherwise']
                    continue
                opts, others = [], []
                for kk, tgt in targets:
                    if kk == 'otherwise': opts.append((tgt, z3.And(*[v != o for o in others]) if others else True))
                    else:
                        c = z3.BitVecVal(int(kk), v.size()); others.append(c); opts.append((tgt, v == c))
                bb = self.choose(opts); continue
            if k == 'assert':
                c = self.operand(fr, pt[2])
                if pt[1]: c = z3.Not(c)
                if self.truth(c): bb = pt[4]; continue
                raise Panic(pt[3])
            if k == 'drop':
                self.drop(self.place(fr, pt[1]).get()); bb = pt[2]; continue
            if k == 'call':
                argv = [self.operand(fr, a) for a in pt[3]]
                r = self.call(pt[2], argv)
                if pt[4] is None: raise Panic('diverging call ' + pt[2])
                if pt[1]: self.place(fr, pt[1]).set(r)
                bb = pt[4]; continue
            raise Unknown('terminator ' + t)

    def stmt(self, fr, st):
        sp = _STMT.get(st)
        if sp is None:
            if st.startswith(('StorageLive', 'StorageDead', 'nop', 'FakeRead', 'PlaceMention', 'Retag', 'AscribeUserType', 'Coverage', 'ConstEvalCounter', 'debug ', 'let ', 'scope ', '}', 'Deinit(')):
                sp = _STMT[st] = ()
            else:
                d = 0; k = -1
                for i, c in enumerate(st):
                    if c == '(': d += 1
                    elif c == ')': d -= 1
                    elif d == 0 and st.startswith(' = ', i): k = i; break
                if k < 0 or not st.endswith(';'): raise Unknown('stmt ' + st)
                sp = _STMT[st] = (st[:k], st[k+3:-1])
        if not sp: return
        lhs, rhs = sp
        if lhs.startswith('discriminant('):
            tgt = self.place(fr, lhs[13:-1]).get()
            if isinstance(tgt, CoroutineVal):
                tgt.state = int(rhs); return
            raise Unknown('SetDiscriminant on %r' % (tgt,))
        base, _ = parse_place(lhs)
        v = self.rvalue(fr, rhs, fr['fn'].types.get(base))
        self.place(fr, lhs).set(v)

    # -- drop glue
    def drop(self, v):
        if v is None: return
        if hasattr(v, 'model_drop'): v.model_drop(self); return
        if isinstance(v, (Struct, Enum)):
            name = v.name
            # user Drop impl?
            f = self.resolve((name, 'Drop', 'drop')) if name not in ('tuple',) else None
            if f is not None:
                self.run(f, [Ref(LCell(Cell(v)))])
            for c in v.f: self.drop(c.v)
