"""Callee models for the environment of actix-server's accept loop and worker (model of mio / tokio / actix-rt items
whose Rust twins live in /verif/models) on top of models.py."""
import z3
from mirsym import *
from models import *
import models as _m


class SockAddrObj:
    def __init__(self, path): self.path = path
    def model_drop(self, ex): pass


class ListenerObj2:
    """mio::net::{TcpListener,UnixListener} model: scripted accept results, registration flag, edge flag, path link."""
    def __init__(self, kind, id_base, path=None):
        self.kind = kind; self.script = []; self.registered = False; self.next_id = 0; self.id_base = id_base
        self.dereg_calls = 0; self.path = path; self.path_linked = path is not None; self.edge = False
        self.accepted = []
    def model_drop(self, ex): pass


def _io_err(kind): return IoErr(Enum('ErrorKind', kind))

ERRK = {'Refused': 'ConnectionRefused', 'Aborted': 'ConnectionAborted', 'Reset': 'ConnectionReset', 'Other': 'Other'}


def m_lst_accept(ex, a, t):
    l = target(a[0])
    if not l.script: return Enum('Result', 'Err', [_io_err('WouldBlock')])
    r = l.script.pop(0)
    if r == 'Stream':
        sid = l.id_base + l.next_id; l.next_id += 1; l.accepted.append(sid)
        sname = 'TcpStream' if l.kind == 'Tcp' else 'UnixStream'
        return Enum('Result', 'Ok', [Tuple([Struct(sname, [z3.BitVecVal(sid, 64)]), Opaque('peer-addr')])])
    return Enum('Result', 'Err', [_io_err(ERRK[r])])


def m_lst_register(ex, a, t):
    l = target(a[0]); l.registered = True
    if l.script: l.edge = True          # (re-)adding to epoll reports current readiness
    return Enum('Result', 'Ok', [UNIT])


def m_lst_deregister(ex, a, t):
    l = target(a[0]); l.dereg_calls += 1
    if not l.registered: return Enum('Result', 'Err', [_io_err('NotFound')])
    l.registered = False; l.edge = False
    return Enum('Result', 'Ok', [UNIT])


def m_registry_fwd(meth):
    def f(ex, a, t):
        # mio::Registry::{register,reregister,deregister}::<S>(&self, &mut S, ..) -> S::{..}(&mut S, &Registry, ..)
        src = a[1]; v = target(src)
        name = v.name if isinstance(v, (Struct, Enum)) else None
        fn = ex.resolve((name, 'Source', meth)) if name else None
        if fn is None: raise Unknown('Registry::%s on %r' % (meth, v))
        return ex.run(fn, [src, a[0]] + list(a[2:]))
    return f


def m_uds_local_addr(ex, a, t):
    l = target(a[0])
    if l.path is None: return Enum('Result', 'Err', [_io_err('Other')])
    return Enum('Result', 'Ok', [SockAddrObj(l)])


def m_tcp_local_addr(ex, a, t): return Enum('Result', 'Ok', [Opaque('tcp-addr')])


def m_as_pathname(ex, a, t):
    s = target(a[0])
    return Enum('Option', 'Some', [Ref(LCell(Cell(s)))])


def m_remove_file(ex, a, t):
    p = a[0]
    while isinstance(p, Ref): p = p.lv.get()
    if isinstance(p, SockAddrObj):
        was = p.path.path_linked; p.path.path_linked = False
        return Enum('Result', 'Ok', [UNIT]) if was else Enum('Result', 'Err', [_io_err('NotFound')])
    raise Unknown('remove_file on %r' % (p,))


def m_res_map(ex, a, t):
    r, clo = a
    if r.variant != 'Ok': return r
    return Enum('Result', 'Ok', [call_closure(ex, clo, [r.f[0].v])])


def m_res_ok(ex, a, t):
    r = a[0]
    return Enum('Option', 'Some', [r.f[0].v]) if r.variant == 'Ok' else Enum('Option', 'None')


def m_opt_map(ex, a, t):
    o, clo = a
    if o.variant != 'Some': return o
    return Enum('Option', 'Some', [call_closure(ex, clo, [o.f[0].v])])


def m_opt_as_ref(ex, a, t):
    o = target(a[0])
    if o.variant != 'Some': return Enum('Option', 'None')
    return Enum('Option', 'Some', [Ref(LCell(o.f[0]))])


def m_arc_new(ex, a, t): return RcPtr(RcBox(a[0]))
def m_atomic_new(ex, a, t): return AtomicObj(a[0])
def m_mutex_new(ex, a, t): return MutexObj(a[0])
def m_mio_waker_new(ex, a, t): return Enum('Result', 'Ok', [MioWaker()])
def m_question_branch(ex, a, t):
    r = a[0]
    if r.variant == 'Ok': return Enum('ControlFlow', 'Continue', [r.f[0].v])
    return Enum('ControlFlow', 'Break', [Enum('Result', 'Err', [r.f[0].v])])
def m_from_residual(ex, a, t):
    # `?` on a Result inside a function returning Poll<Result<..>> wraps the residual in Poll::Ready
    if t.startswith('<Poll<'): return Enum('Poll', 'Ready', [a[0]])
    return a[0]
def m_identity(ex, a, t): return a[0]
def m_opt_is_some_and(ex, a, t): raise Unknown('is_some_and')
def m_box_new(ex, a, t): return BoxObj(a[0])
def m_vec_new(ex, a, t): return VecObj([])
def m_slice_len(ex, a, t): return z3.BitVecVal(len(target(a[0]).items), 64)
def m_slice_index_mut(ex, a, t): return m_vec_index(ex, a, t)
def m_dur_lt(ex, a, t): return target(a[0]) < target(a[1])
def m_inst_ge(ex, a, t): return target(a[0]) >= target(a[1])
def m_inst_le(ex, a, t): return target(a[0]) <= target(a[1])
def m_inst_gt(ex, a, t): return target(a[0]) > target(a[1])
def m_oneshot_channel(ex, a, t):
    tx = OneshotTx(); rx = OneshotRx(tx); return Tuple([tx, rx])
class OneshotRx:
    def __init__(self, tx): self.tx = tx
    def model_drop(self, ex): self.tx.rx_dropped = True
    def poll(self, ex):
        tx = self.tx
        if tx.sent is not None: return Enum('Poll', 'Ready', [Enum('Result', 'Ok', [tx.sent])])
        if getattr(tx, 'dropped', False): return Enum('Poll', 'Ready', [Enum('Result', 'Err', [Opaque('RecvError')])])
        return Enum('Poll', 'Pending')


MODELS[:0] = [
    (r'^mio::net::(Tcp|Unix)Listener::accept$', m_lst_accept),
    (r'^<mio::net::(Tcp|Unix)Listener as (mio::event::)?Source>::(re)?register$', m_lst_register),
    (r'^<mio::net::(Tcp|Unix)Listener as (mio::event::)?Source>::deregister$', m_lst_deregister),
    (r'(?:^|::)Registry::register::<', m_registry_fwd('register')),
    (r'(?:^|::)Registry::reregister::<', m_registry_fwd('reregister')),
    (r'(?:^|::)Registry::deregister::<', m_registry_fwd('deregister')),
    (r'^mio::net::UnixListener::local_addr$', m_uds_local_addr), (r'^mio::net::TcpListener::local_addr$', m_tcp_local_addr),
    (r'unix::net::SocketAddr::as_pathname$', m_as_pathname), (r'(?:^|::)remove_file::<', m_remove_file),
    (r'(?:^|::)Result::<.*>::map::<', m_res_map), (r'(?:^|::)Result::<.*>::ok$', m_res_ok),
    (r'(?:^|::)Option::<.*>::map::<', m_opt_map), (r'(?:^|::)Option::<.*>::as_ref$', m_opt_as_ref),
    (r'(?:^|::)Arc::<.*>::new$', m_arc_new), (r'^<Arc<.*> as Clone>::clone$', m_rc_clone),
    (r'(?:^|::)Atomic(Usize)?::(<.*>::)?new$', m_atomic_new), (r'(?:^|::)Mutex::<.*>::new$', m_mutex_new),
    (r'(?:^|::)(mio::)?Waker::new$', m_mio_waker_new),
    (r'as Try>::branch$', m_question_branch), (r'as FromResidual<.*>>::from_residual$', m_from_residual),
    (r'^Box::<.*>::new$', m_box_new), (r'(?:^|::)Vec::<.*>::new$', m_vec_new),
    (r'^core::slice::<impl \[.*\]>::len$', m_slice_len),
    (r'^<\[.*\] as IndexMut<usize>>::index_mut$', m_slice_index_mut), (r'^<\[.*\] as Index<usize>>::index$', m_slice_index_mut),
    (r'^<Vec<.*> as IndexMut<usize>>::index_mut$', m_vec_index),
    (r'^<Duration as PartialOrd>::lt$', m_dur_lt),
    (r'Instant as PartialOrd>::ge$', m_inst_ge), (r'Instant as PartialOrd>::le$', m_inst_le), (r'Instant as PartialOrd>::gt$', m_inst_gt),
    (r'oneshot::channel::<', m_oneshot_channel),
]

# generic fallbacks (lowest priority)
MODELS += [(r'^<.* as From<.*>>::from$', m_identity), (r'^<.* as Into<.*>>::into$', m_identity)]


def m_tx_clone(ex, a, t): return TxObj(target(a[0]).ch)
MODELS[:0] = [(r'^<(tokio::sync::mpsc::)?UnboundedSender<.*> as Clone>::clone$', m_tx_clone)]


def m_fetch_update(ex, a, t):
    # AtomicUsize::fetch_update(&self, set_order, fetch_order, f): apply f to the current value; Some(new) -> store, Ok(old); None -> Err(old)
    at = target(a[0]); old = at.value.v
    r = call_closure(ex, a[3], [old])
    if r.variant == 'Some':
        at.value.v = r.f[0].v; return Enum('Result', 'Ok', [old])
    return Enum('Result', 'Err', [old])
def m_ord_max(ex, a, t): return z3.If(z3.UGE(a[0], a[1]), a[0], a[1])
def m_ord_min(ex, a, t): return z3.If(z3.ULE(a[0], a[1]), a[0], a[1])
def m_sat_sub(ex, a, t): return z3.If(z3.UGE(a[0], a[1]), a[0] - a[1], z3.BitVecVal(0, a[0].size()))
def m_res_unwrap(ex, a, t):
    if a[0].variant != 'Ok': raise Panic('unwrap on Err')
    return a[0].f[0].v
def m_res_unwrap_or(ex, a, t): return a[0].f[0].v if a[0].variant == 'Ok' else a[1]
MODELS[:0] = [(r'(?:^|::)Atomic(Usize)?(::<.*>)?::fetch_update::<', m_fetch_update),
              (r'^<usize as Ord>::max$|^std::cmp::max::<usize>$|^core::cmp::Ord::max$', m_ord_max), (r'^<usize as Ord>::min$|^std::cmp::min::<usize>$', m_ord_min),
              (r'num::<impl usize>::saturating_sub$', m_sat_sub), (r'(?:^|::)Result::<.*>::unwrap$', m_res_unwrap), (r'(?:^|::)Result::<.*>::unwrap_or$', m_res_unwrap_or)]

import mirsym as _mm
_mm.LATE_MODELS.add(m_identity)


def m_dur_add(ex, a, t): return z3.simplify(a[0] + a[1])
def m_dur_sub(ex, a, t): return z3.simplify(a[0] - a[1])
def m_dur_le(ex, a, t): return target(a[0]) <= target(a[1])
def m_dur_eq(ex, a, t): return target(a[0]) == target(a[1])
MODELS[:0] = [(r'^<Duration as Add>::add$', m_dur_add), (r'^<Duration as Sub>::sub$', m_dur_sub), (r'^<Duration as PartialOrd>::le$', m_dur_le),
              (r'^<Duration as PartialEq>::eq$', m_dur_eq), (r'Instant as Sub<Duration>>::sub$', m_dur_sub)]


def _sleep_of(v):
    while isinstance(v, Ref) or hasattr(v, 'content'):
        v = v.lv.get() if isinstance(v, Ref) else v.content.v
    return v
def m_sleep_is_elapsed(ex, a, t): return ex.clock >= _sleep_of(a[0]).deadline
def m_sleep_deadline(ex, a, t): return _sleep_of(a[0]).deadline
def _callable(ex, f, args):
    """apply a closure or a function item (enum constructor / dumped function) to arguments"""
    if isinstance(f, ClosureVal): return call_closure(ex, f, args)
    what = getattr(f, 'what', '') or ''
    name = what.split('<')[0].rstrip(':')
    segs = [x for x in ex.strip_generics(what).split('::') if x]
    if len(segs) >= 2 and segs[-2] in ex.enums and segs[-1] in ex.enums[segs[-2]]: return Enum(segs[-2], segs[-1], args)
    fn = ex.fns.get(what) or ex.resolve(ex.callee_key(what))
    if fn is not None: return ex.run(fn, args)
    if what: return ex.call(what, args)          # a library function with a callee model
    raise Unknown('cannot call function value %r' % (what,))
def m_opt_map_or(ex, a, t):
    o, default, f = a
    return _callable(ex, f, [o.f[0].v]) if o.variant == 'Some' else default
def m_opt_map_or_else(ex, a, t):
    o, d, f = a
    return _callable(ex, f, [o.f[0].v]) if o.variant == 'Some' else _callable(ex, d, [])
def m_opt_ok_or(ex, a, t):
    return Enum('Result', 'Ok', [a[0].f[0].v]) if a[0].variant == 'Some' else Enum('Result', 'Err', [a[1]])
def m_opt_or(ex, a, t): return a[0] if a[0].variant == 'Some' else a[1]
def m_opt_get_or_insert(ex, a, t):
    lv = a[0].lv; o = lv.get()
    if o.variant != 'Some': o = Enum('Option', 'Some', [a[1]]); lv.set(o)
    return Ref(LCell(o.f[0]))
MODELS[:0] = [(r'(?:^|::)Sleep::is_elapsed$', m_sleep_is_elapsed), (r'(?:^|::)Sleep::deadline$', m_sleep_deadline),
              (r'^Option::<.*>::map_or::<', m_opt_map_or), (r'^Option::<.*>::map_or_else::<', m_opt_map_or_else), (r'^Option::<.*>::ok_or::<', m_opt_ok_or),
              (r'^Option::<.*>::or$', m_opt_or), (r'^Option::<.*>::get_or_insert$', m_opt_get_or_insert)]


def m_opt_as_mut(ex, a, t):
    o = target(a[0])
    return Enum('Option', 'Some', [Ref(LCell(o.f[0]))]) if o.variant == 'Some' else Enum('Option', 'None')
def m_opt_expect(ex, a, t):
    if a[0].variant != 'Some': raise Panic('expect on None')
    return a[0].f[0].v
MODELS[:0] = [(r'^Option::<.*>::as_mut$', m_opt_as_mut), (r'^Option::<.*>::expect$', m_opt_expect)]
