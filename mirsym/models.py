"""Callee models for the mirsym prototype (std / tokio items the repository code calls)."""
import re, z3
from mirsym import *

class RcBox:
    def __init__(self, v): self.strong = 1; self.value = Cell(v)
class RcPtr:
    def __init__(self, box): self.box = box
    def model_drop(self, ex):
        self.box.strong -= 1
        if self.box.strong == 0: ex.drop(self.box.value.v)
class RefCellObj:
    def __init__(self, v): self.borrow = 0; self.value = Cell(v)
    def model_drop(self, ex): ex.drop(self.value.v)
class RefMutObj:
    def __init__(self, rc): self.rc = rc
    def model_drop(self, ex): self.rc.borrow = 0
class DequeObj:
    def __init__(self): self.items = []
    def model_drop(self, ex):
        for it in self.items: ex.drop(it)
class CellObj:
    def __init__(self, v): self.value = Cell(v)
    def model_drop(self, ex): ex.drop(self.value.v)
class WakerObj:
    def __init__(self, wid): self.id = wid
    def model_drop(self, ex): pass
class ContextObj:
    def __init__(self, w): self.waker = Cell(w)
class AtomicObj:
    def __init__(self, v): self.value = Cell(v)
    def model_drop(self, ex): pass
class Phantom:
    def model_drop(self, ex): pass

def target(ref):
    assert isinstance(ref, Ref), ref
    return ref.lv.get()

def m_rc_new(ex, a, t): return RcPtr(RcBox(a[0]))
def m_rc_clone(ex, a, t):
    p = target(a[0])
    if not isinstance(p, RcPtr): return p          # an opaque shared value (e.g. a TLS configuration): sharing is all that matters
    p.box.strong += 1; return RcPtr(p.box)
def m_rc_deref(ex, a, t): return Ref(LCell(target(a[0]).box.value))
def m_rc_strong(ex, a, t): return z3.BitVecVal(target(a[0]).box.strong, 64)
def m_refcell_new(ex, a, t): return RefCellObj(a[0])
def m_borrow_mut(ex, a, t):
    rc = target(a[0])
    if rc.borrow != 0: raise Panic('already borrowed')
    rc.borrow = -1; return RefMutObj(rc)
class RefObj:
    def __init__(self, rc): self.rc = rc
    def model_drop(self, ex): self.rc.borrow -= 1
def m_borrow(ex, a, t):
    rc = target(a[0])
    if rc.borrow < 0: raise Panic('already mutably borrowed')
    rc.borrow += 1; return RefObj(rc)
def m_ref_deref(ex, a, t): return Ref(LCell(target(a[0]).rc.value))
def m_refmut_deref(ex, a, t): return Ref(LCell(target(a[0]).rc.value))
def m_vd_new(ex, a, t): return DequeObj()
def m_vd_push_back(ex, a, t): target(a[0]).items.append(a[1]); return UNIT
def m_vd_pop_front(ex, a, t):
    d = target(a[0])
    return Enum('Option', 'Some', [d.items.pop(0)]) if d.items else Enum('Option', 'None')
def m_vd_pop_back(ex, a, t):
    d = target(a[0])
    return Enum('Option', 'Some', [d.items.pop()]) if d.items else Enum('Option', 'None')
def m_vd_push_front(ex, a, t): target(a[0]).items.insert(0, a[1]); return UNIT
def m_vd_is_empty(ex, a, t): return z3.BoolVal(not target(a[0]).items)
def m_vd_clear(ex, a, t):
    d = target(a[0])
    for it in d.items: ex.drop(it)
    d.items = []; return UNIT
def m_cell_default(ex, a, t): return CellObj(Enum('Option', 'None'))
def m_cell_new(ex, a, t): return CellObj(a[0])
def m_cell_replace(ex, a, t):
    c = target(a[0]); old = c.value.v; c.value.v = a[1]; return old
def m_cell_take(ex, a, t):
    c = target(a[0]); old = c.value.v; c.value.v = Enum('Option', 'None'); return old
def m_cell_get(ex, a, t): return clone_val(target(a[0]).value.v)
def m_cell_set(ex, a, t): target(a[0]).value.v = a[1]; return UNIT
def m_phantom(ex, a, t): return Phantom()
def m_opt_is_some(ex, a, t): return z3.BoolVal(target(a[0]).variant == 'Some')
def m_ctx_waker(ex, a, t): return Ref(LCell(target(a[0]).waker))
def m_waker_clone(ex, a, t): return WakerObj(target(a[0]).id)
def m_waker_wake(ex, a, t):
    if isinstance(a[0], Ref): return m_mio_wake(ex, a, t)
    ex.wakes[a[0].id] = ex.wakes.get(a[0].id, 0) + 1; return UNIT
def m_pin_deref(ex, a, t): return target(a[0])          # &Pin<&mut T> -> &mut T
def m_arc_deref(ex, a, t): return Ref(LCell(target(a[0]).box.value))
def m_fetch_add(ex, a, t):
    at = target(a[0]); old = at.value.v; at.value.v = old + a[1]; return old
def m_fetch_sub(ex, a, t):
    at = target(a[0]); old = at.value.v; at.value.v = old - a[1]; return old
def m_load(ex, a, t): return target(a[0]).value.v
def m_slice_iter(ex, a, t):
    v = target(a[0])
    cells = v.e if isinstance(v, Array) else v.items
    return IterObj([Ref(LCell(c)) for c in cells])
def m_iter_any(ex, a, t):
    it = target(a[0]); clo = a[1]
    res = z3.BoolVal(False)
    for x in it.items:
        keep, v = run_stages(ex, it, x)
        if not keep: continue
        r = call_closure(ex, clo, [v])
        res = z3.simplify(z3.Or(res, r))
        if z3.is_true(res): break
    it.items = []
    return res

def m_opaque(ex, a, t): return Opaque(t)
def m_panic(ex, a, t): raise Panic(t)

MODELS = [
    (r'(?:^|::)Arguments::', m_opaque), (r'panic_fmt$|panicking::panic|^panic', m_panic),
    (r'(?:^|::)Rc::<.*>::new$', m_rc_new), (r'^<Rc<.*> as Clone>::clone$', m_rc_clone), (r'^<Rc<.*> as Deref>::deref$', m_rc_deref),
    (r'(?:^|::)Rc::<.*>::strong_count$', m_rc_strong),
    (r'(?:^|::)RefCell::<.*>::new$', m_refcell_new), (r'(?:^|::)RefCell::<.*>::borrow_mut$', m_borrow_mut),
    (r'^<RefMut<.*> as Deref(Mut)?>::deref(_mut)?$', m_refmut_deref), (r'(?:^|::)RefCell::<.*>::borrow$', m_borrow), (r'^<(std::cell::)?Ref<.*> as Deref>::deref$', m_ref_deref),
    (r'(?:^|::)VecDeque::<.*>::new$', m_vd_new), (r'(?:^|::)VecDeque::<.*>::push_back$', m_vd_push_back),
    (r'(?:^|::)VecDeque::<.*>::pop_front$', m_vd_pop_front), (r'(?:^|::)VecDeque::<.*>::pop_back$', m_vd_pop_back), (r'(?:^|::)VecDeque::<.*>::push_front$', m_vd_push_front),
    (r'(?:^|::)VecDeque::<.*>::is_empty$', m_vd_is_empty), (r'(?:^|::)VecDeque::<.*>::clear$', m_vd_clear),
    (r'^<Cell<.*> as Default>::default$', m_cell_default), (r'(?:^|::)Cell::<.*>::new$', m_cell_new),
    (r'(?:^|::)Cell::<.*>::replace$', m_cell_replace), (r'(?:^|::)Cell::<.*>::take$', m_cell_take),
    (r'(?:^|::)Cell::<.*>::get$', m_cell_get), (r'(?:^|::)Cell::<.*>::set$', m_cell_set),
    (r'^<PhantomData<.*> as Default>::default$', m_phantom),
    (r'(?:^|::)Option::<.*>::is_some$', m_opt_is_some),
    (r'(?:^|::)Context::<.*>::waker$', m_ctx_waker), (r'^<Waker as Clone>::clone$', m_waker_clone), (r'(?:^|::)Waker::wake$', m_waker_wake),
    (r'^<Pin<&mut .*> as Deref>::deref$', m_pin_deref),
    (r'^<Arc<.*> as Deref>::deref$', m_arc_deref),
    (r'fetch_add$', m_fetch_add), (r'fetch_sub$', m_fetch_sub), (r'(?:^|::)Atomic::<.*>::load$', m_load),
    (r'(?:^|::)core::slice::<impl \[.*\]>::iter$', m_slice_iter), (r'as Iterator>::any::<', m_iter_any),
]

from mirsym import ENUM_ALT
def parse_layouts(paths):
    structs, enums = {}, {}
    for p in paths:
        src = open(p).read()
        src = re.sub(r'//.*', '', src)
        for m in re.finditer(r'struct (\w+)(?:<[^>{(]*>)?\s*(?:where[^{]*)?\{([^}]*)\}', src):
            fields = [re.sub(r'pub(\([^)]*\))? ', '', f).strip().split(':')[0].strip() for f in split_top(m.group(2)) if ':' in f]
            fields = [re.sub(r'#\[[^\]]*\]\s*', '', f) for f in fields]
            structs[m.group(1)] = fields
        for m in re.finditer(r'struct (\w+)(?:<[^>{(]*>)?\s*\(([^;]*)\);', src):
            structs[m.group(1)] = list(range(len(split_top(m.group(2)))))
        for m in re.finditer(r'enum (\w+)(?:<[^>{]*>)?\s*\{(.*?)\n\}', src, re.S):
            vs = []
            for part in split_top(m.group(2)):
                part = re.sub(r'#\[[^\]]*\]\s*', '', part).strip()
                mm = re.match(r'(\w+)', part)
                if mm: vs.append(mm.group(1))
            if m.group(1) in enums and enums[m.group(1)] != vs:
                # two enums of the same name in different modules: keep every variant list (looked up by variant)
                ENUM_ALT.setdefault(m.group(1), [enums[m.group(1)]]).append(vs)
            enums[m.group(1)] = vs
    return structs, enums

# ---- additional models for actix-server accept.rs
class VecObj:
    def __init__(self, items=None): self.items = [Cell(x) for x in (items or [])]
    def model_drop(self, ex):
        for c in self.items: ex.drop(c.v)
class ChanObj:
    def __init__(self, track=False): self.q = []; self.rx_alive = True; self.senders = 0; self.track = track
class TxObj:
    """a sender handle; with ch.track the channel counts its live senders (clone +1, drop -1) and the receiver sees the end of
    the stream when the last one - wherever it is held - is gone"""
    def __init__(self, ch): self.ch = ch; self.live = True; ch.senders += 1
    def model_drop(self, ex):
        if self.live: self.live = False; self.ch.senders -= 1
def m_vec_len(ex, a, t): return z3.BitVecVal(len(target(a[0]).items), 64)
def m_vec_is_empty(ex, a, t): return z3.BoolVal(len(target(a[0]).items) == 0)
def m_vec_push(ex, a, t): target(a[0]).items.append(Cell(a[1])); return UNIT
def conc(ex, v):
    v = z3.simplify(v)
    if z3.is_bv_value(v): return v.as_long()
    # fork on the value (small domains only)
    opts = [(k, v == k) for k in range(8)]
    return ex.choose(opts)
def m_vec_index(ex, a, t):
    vec = target(a[0]); i = conc(ex, a[1])
    if i >= len(vec.items): raise Panic('index out of bounds')
    return Ref(LCell(vec.items[i]))
def m_vec_pop(ex, a, t):
    vec = target(a[0])
    if not vec.items: return Enum('Option', 'None')
    return Enum('Option', 'Some', [vec.items.pop().v])
def m_slice_get(ex, a, t):
    # <[T]>::get(idx) -> Option<&T>
    vec = target(a[0]); i = conc(ex, a[1])
    if i >= len(vec.items): return Enum('Option', 'None')
    return Enum('Option', 'Some', [Ref(LCell(vec.items[i]))])
def m_vec_swap_remove(ex, a, t):
    vec = target(a[0]); i = conc(ex, a[1])
    if i >= len(vec.items): raise Panic('swap_remove index')
    last = vec.items.pop()
    if i < len(vec.items):
        old = vec.items[i].v; vec.items[i].v = last.v; return old
    return last.v
def m_tx_send(ex, a, t):
    tx = target(a[0])
    if hasattr(ex, 'on_send'): pass
    if not tx.ch.rx_alive or getattr(tx.ch, 'closed', False):
        if getattr(ex, 'on_send_fail', None): ex.on_send_fail(tx.ch, a[1])
        return Enum('Result', 'Err', [Struct('SendError', [a[1]])])
    tx.ch.q.append(a[1])
    if getattr(ex, 'after_send', None): ex.after_send(tx.ch)
    return Enum('Result', 'Ok', [UNIT])
def m_map_err(ex, a, t):
    r, clo = a
    if r.variant == 'Ok': return r
    if not isinstance(clo, ClosureVal):      # a function item (e.g. an enum constructor)
        import srvmodels
        return Enum('Result', 'Err', [srvmodels._callable(ex, clo, [r.f[0].v])])
    f = [fn for n, fn in ex.fns.items() if '{closure#' in n and clo.ty.split('@')[1].rstrip('}') in fn.header]
    if len(f) != 1: raise Unknown('closure ' + clo.ty)
    return Enum('Result', 'Err', [ex.run(f[0], [clo, r.f[0].v])])
MODELS += [
    (r'core::slice::<impl \[.*\]>::get::<usize>$', m_slice_get), (r'(?:^|::)Vec::<.*>::pop$', m_vec_pop), (r'(?:^|::)Vec::<.*>::len$', m_vec_len), (r'(?:^|::)Vec::<.*>::is_empty$', m_vec_is_empty), (r'(?:^|::)Vec::<.*>::push$', m_vec_push),
    (r'^<Vec<.*> as Index<usize>>::index$', m_vec_index), (r'(?:^|::)Vec::<.*>::swap_remove$', m_vec_swap_remove),
    (r'(?:^|::)UnboundedSender::<.*>::send$', m_tx_send), (r'(?:^|::)Result::<.*>::map_err::<', m_map_err),
]

# ---- models for accept()/handle_waker()/process_timeout()
class IoErr:
    def __init__(self, kind): self.kind = kind
    def model_drop(self, ex): pass
class ListenerObj:
    """model of socket::MioListener: scripted accept results, registration flag"""
    def __init__(self): self.script = []; self.registered = False; self.next_id = 0; self.dereg_calls = 0
    def model_drop(self, ex): pass
class IterObj:
    def __init__(self, items, stages=None): self.items = list(items); self.stages = list(stages or [])
class MutexObj:
    def __init__(self, v): self.value = Cell(v); self.locked = False
class GuardObj:
    def __init__(self, m): self.m = m
    def model_drop(self, ex): self.m.locked = False
class MioWaker:
    def __init__(self): self.pending = 0

def closure_fn(ex, clo):
    loc = clo.ty.split('@')[1].rstrip('}')
    f = [fn for n, fn in ex.fns.items() if '{closure#' in n and ('{closure@' + loc + '}') in fn.header.split(',')[0]]
    if len(f) != 1: raise Unknown('closure ' + clo.ty + ' -> %d' % len(f))
    return f[0]
def call_closure(ex, clo, args):
    if not isinstance(clo, ClosureVal):       # a function item used as a callable (e.g. `.map(System::stop)`, an enum constructor)
        import srvmodels
        return srvmodels._callable(ex, clo, args)
    f = closure_fn(ex, clo)
    first = f.types.get(1, '')
    env = Ref(LCell(Cell(clo))) if first.startswith('&') else clo
    return ex.run(f, [env] + args)
def run_stages(ex, it, x):
    """returns (keep, value)"""
    for kind, clo in it.stages:
        if kind == 'map': x = call_closure(ex, clo, [x])
        elif kind == 'filter':
            if not ex.truth(call_closure(ex, clo, [Ref(LCell(Cell(x)))])): return False, None
        elif kind == 'filter_map':
            r = call_closure(ex, clo, [x])
            if r.variant != 'Some': return False, None
            x = r.f[0].v
    return True, x
def m_iter_mut(ex, a, t): return IterObj([Ref(LCell(c)) for c in target(a[0]).items])
def m_into_iter(ex, a, t): return IterObj([c.v for c in a[0].items])
def m_it_map(ex, a, t): return IterObj(a[0].items, a[0].stages + [('map', a[1])])
def m_it_filter(ex, a, t): return IterObj(a[0].items, a[0].stages + [('filter', a[1])])
def m_it_filter_map(ex, a, t): return IterObj(a[0].items, a[0].stages + [('filter_map', a[1])])
def m_it_rev(ex, a, t): return IterObj(list(reversed(a[0].items)), a[0].stages)
def m_it_all(ex, a, t):
    it = target(a[0]); res = z3.BoolVal(True)
    for x in it.items:
        keep, v = run_stages(ex, it, x)
        if not keep: continue
        res = z3.simplify(z3.And(res, call_closure(ex, a[1], [v])))
        if z3.is_false(res): break
    it.items = []
    return res
def m_it_find(ex, a, t):
    it = target(a[0])
    while it.items:
        x = it.items.pop(0); keep, v = run_stages(ex, it, x)
        if keep and ex.truth(call_closure(ex, a[1], [Ref(LCell(Cell(v)))])): return Enum('Option', 'Some', [v])
    return Enum('Option', 'None')
def m_it_position(ex, a, t):
    it = target(a[0]); k = 0
    while it.items:
        x = it.items.pop(0); keep, v = run_stages(ex, it, x)
        if not keep: continue
        if ex.truth(call_closure(ex, a[1], [v])): return Enum('Option', 'Some', [z3.BitVecVal(k, 64)])
        k += 1
    return Enum('Option', 'None')
def m_it_count(ex, a, t):
    it = a[0]; n = 0
    for x in it.items:
        keep, v = run_stages(ex, it, x)
        if keep: n += 1
    return z3.BitVecVal(n, 64)
def m_it_for_each(ex, a, t):
    for x in a[0].items:
        keep, v = run_stages(ex, a[0], x)
        if keep: call_closure(ex, a[1], [v])
    return UNIT
def m_it_collect(ex, a, t):
    out = []
    for x in a[0].items:
        keep, v = run_stages(ex, a[0], x)
        if keep: out.append(v)
    return VecObj(out)
def m_opt_take(ex, a, t):
    lv = a[0].lv; old = lv.get(); lv.set(Enum('Option', 'None')); return old
def m_opt_unwrap(ex, a, t):
    if a[0].variant != 'Some': raise Panic('unwrap on None')
    return a[0].f[0].v
def m_res_expect(ex, a, t):
    if a[0].variant != 'Ok': raise Panic('expect on Err')
    return a[0].f[0].v
def m_res_unwrap_or_else(ex, a, t):
    if a[0].variant == 'Ok': return a[0].f[0].v
    return call_closure(ex, a[1], [a[0].f[0].v])
def m_mutex_lock(ex, a, t):
    m = target(a[0])
    if m.locked: raise Panic('deadlock: mutex locked twice')
    m.locked = True; return Enum('Result', 'Ok', [GuardObj(m)])
def m_guard_deref(ex, a, t): return Ref(LCell(target(a[0]).m.value))
def m_mem_drop(ex, a, t): ex.drop(a[0]); return UNIT
def m_mem_swap(ex, a, t):
    x, y = a[0].lv.get(), a[1].lv.get(); a[0].lv.set(y); a[1].lv.set(x); return UNIT
def m_vd_with_cap(ex, a, t): return DequeObj()
def m_mio_wake(ex, a, t): target(a[0]).pending += 1; return Enum('Result', 'Ok', [UNIT])
def m_now(ex, a, t): return ex.clock
def _to_int(v):
    v = z3.simplify(v) if z3.is_expr(v) else v
    if z3.is_bv_value(v): return z3.IntVal(v.as_long())
    if z3.is_bv(v): return z3.BV2Int(v)
    return v
# virtual time: Instants and Durations are mathematical integers (milliseconds); the clock only moves forward
def m_dur_ms(ex, a, t): return _to_int(a[0])
def m_inst_add(ex, a, t): return z3.simplify(a[0] + a[1])
def m_inst_sub(ex, a, t): return z3.simplify(a[0] - a[1])
def m_inst_lt(ex, a, t): return target(a[0]) < target(a[1])
def m_dur_gt(ex, a, t): return target(a[0]) > target(a[1])
def m_listener_accept(ex, a, t):
    l = target(a[0])
    if not l.script: return Enum('Result', 'Err', [IoErr(Enum('ErrorKind', 'WouldBlock'))])
    r = l.script.pop(0)
    if r == 'ok':
        sid = l.next_id; l.next_id += 1
        return Enum('Result', 'Ok', [Enum('MioStream', 'Tcp', [z3.BitVecVal(sid, 64)])])
    return Enum('Result', 'Err', [IoErr(Enum('ErrorKind', r))])
def m_err_kind(ex, a, t): return target(a[0]).kind
def m_kind_eq(ex, a, t): return z3.BoolVal(target(a[0]).variant == target(a[1]).variant)
def m_local_addr(ex, a, t): return Opaque('addr')
def m_register(ex, a, t):
    l = target(a[1]); l.registered = True; return Enum('Result', 'Ok', [UNIT])
def m_deregister(ex, a, t):
    l = target(a[1]); l.dereg_calls += 1
    if not l.registered: return Enum('Result', 'Err', [IoErr(Enum('ErrorKind', 'NotFound'))])
    l.registered = False; return Enum('Result', 'Ok', [UNIT])
def m_poll_registry(ex, a, t): return Ref(LCell(Cell(Opaque('registry'))))
def m_token(ex, a, t): return a[0] if a else Opaque('tok')

MODELS += [
    (r'(?:^|::)core::slice::<impl \[.*\]>::iter_mut$', m_iter_mut), (r'as IntoIterator>::into_iter$', m_into_iter),
    (r'as Iterator>::map::<', m_it_map), (r'as Iterator>::filter::<', m_it_filter), (r'as Iterator>::filter_map::<', m_it_filter_map),
    (r'as Iterator>::rev$', m_it_rev), (r'as Iterator>::all::<', m_it_all), (r'as Iterator>::find::<', m_it_find), (r'as Iterator>::position::<', m_it_position), (r'as Iterator>::count$', m_it_count),
    (r'as Iterator>::for_each::<', m_it_for_each), (r'as Iterator>::collect::<', m_it_collect),
    (r'(?:^|::)Option::<.*>::take$', m_opt_take), (r'(?:^|::)Option::<.*>::unwrap$', m_opt_unwrap),
    (r'(?:^|::)Result::<.*>::expect$', m_res_expect), (r'(?:^|::)Result::<.*>::unwrap_or_else::<', m_res_unwrap_or_else),
    (r'(?:^|::)Mutex::<.*>::lock$', m_mutex_lock), (r'MutexGuard<.*> as Deref(Mut)?>::deref(_mut)?$', m_guard_deref),
    (r'(?:^|::)std::mem::drop::<', m_mem_drop), (r'(?:^|::)std::mem::swap::<', m_mem_swap), (r'(?:^|::)VecDeque::<.*>::with_capacity$', m_vd_with_cap),
    (r'(?:^|::)(mio::)?Waker::wake$', m_mio_wake),
    (r'Instant::now$', m_now), (r'(?:^|::)Duration::from_millis$', m_dur_ms), (r'Instant as Add<Duration>>::add$', m_inst_add),
    (r'Instant as Sub>::sub$', m_inst_sub), (r'Instant as PartialOrd>::lt$', m_inst_lt), (r'<Duration as PartialOrd>::gt$', m_dur_gt),
    (r'(?:^|::)std::io::Error::kind$', m_err_kind), (r'^<ErrorKind as PartialEq>::eq$', m_kind_eq),
    (r'(?:^|::)(mio::)?Poll::registry$', m_poll_registry), (r'(?:^|::)(mio::)?Token$', m_token),
]
def m_vec_deref(ex, a, t): return a[0]
def m_opt_is_none(ex, a, t): return z3.BoolVal(target(a[0]).variant == 'None')
MODELS += [(r'(?:^|::)Option::<.*>::is_none$', m_opt_is_none), (r'^<Vec<.*> as Deref(Mut)?>::deref(_mut)?$', m_vec_deref)]

# ---- models for ServerWorker::poll
class BoxObj:
    is_box = True
    def __init__(self, v): self.content = Cell(v)
    def model_drop(self, ex): ex.drop(self.content.v)
class RxObj:
    def __init__(self, ch): self.ch = ch; self.senders_alive = True
    def model_drop(self, ex):
        self.ch.rx_alive = False
        for it in self.ch.q: ex.drop(it)
        self.ch.q = []
class OneshotTx:
    def __init__(self): self.sent = None; self.dropped = False; self.rx_dropped = False
    def model_drop(self, ex):
        if self.sent is None: self.dropped = True
class SleepObj:
    canon_fields = ('deadline', 'polled')
    def __init__(self, deadline): self.deadline = deadline; self.polled = False     # polled since it was last (re-)armed?
    def model_drop(self, ex): pass
def m_enumerate(ex, a, t): return IterObj([Tuple([z3.BitVecVal(i, 64), x]) for i, x in enumerate(a[0].items)], a[0].stages)
def m_into_iter2(ex, a, t):
    if isinstance(a[0], IterObj): return a[0]
    return IterObj([c.v for c in a[0].items])
def m_it_next(ex, a, t):
    it = target(a[0])
    while it.items:
        x = it.items.pop(0); keep, v = run_stages(ex, it, x)
        if keep: return Enum('Option', 'Some', [v])
    return Enum('Option', 'None')
def m_dyn_poll_ready(ex, a, t): return target(a[0]).poll_ready(ex)
def m_dyn_call(ex, a, t): return target(a[0]).call(ex, a[1])
def m_dyn_create(ex, a, t): return target(a[0]).create(ex)
def m_dyn_fut_poll(ex, a, t):
    f = a[0]
    while isinstance(f, Ref): f = f.lv.get()
    if hasattr(f, 'is_box'): f = f.content.v
    while isinstance(f, Ref): f = f.lv.get()
    if isinstance(f, CoroutineVal): return poll_coroutine(ex, f, a[1] if len(a) > 1 else None)
    return f.poll(ex)
def m_pin_as_mut(ex, a, t):
    v = target(a[0])
    if hasattr(v, 'is_box'): return Ref(LCell(v.content))
    return v
def m_pin_get_mut(ex, a, t): return a[0]
def m_poll_recv(ex, a, t):
    rx = target(a[0])
    if rx.ch.q: return Enum('Poll', 'Ready', [Enum('Option', 'Some', [rx.ch.q.pop(0)])])
    if not rx.senders_alive or (rx.ch.track and rx.ch.senders == 0) or getattr(rx.ch, 'closed', False): return Enum('Poll', 'Ready', [Enum('Option', 'None')])
    return Enum('Poll', 'Pending')
def m_poll_recv_many(ex, a, t):
    # UnboundedReceiver::poll_recv_many(&mut self, cx, buffer: &mut Vec<T>, limit) -> Poll<usize>
    rx = target(a[0]); buf = target(a[2])
    lim = conc(ex, a[3]) if z3.is_expr(a[3]) else (int(a[3]) if isinstance(a[3], int) else 1 << 30)      # a constant such as usize::MAX
    if rx.ch.q:
        n = min(lim, len(rx.ch.q))
        for _ in range(n): buf.items.append(Cell(rx.ch.q.pop(0)))
        return Enum('Poll', 'Ready', [z3.BitVecVal(n, 64)])
    if not rx.senders_alive or (rx.ch.track and rx.ch.senders == 0) or getattr(rx.ch, 'closed', False): return Enum('Poll', 'Ready', [z3.BitVecVal(0, 64)])
    return Enum('Poll', 'Pending')
def m_rx_close(ex, a, t):
    # UnboundedReceiver::close: further sends fail, what is queued can still be received, then the stream ends
    target(a[0]).ch.closed = True; return UNIT
def m_oneshot_send(ex, a, t): a[0].sent = a[1]; return Enum('Result', 'Ok', [UNIT])
def m_sleep(ex, a, t): return SleepObj(ex.clock + a[0])
def m_box_pin(ex, a, t): return BoxObj(a[0])
def m_sleep_poll(ex, a, t):
    s = a[0]
    while isinstance(s, Ref): s = s.lv.get()
    s.polled = True
    return Enum('Poll', 'Ready', [UNIT]) if ex.truth(ex.clock >= s.deadline) else Enum('Poll', 'Pending')
def m_sleep_reset(ex, a, t):
    s = a[0]
    while isinstance(s, Ref): s = s.lv.get()
    s.deadline = a[1]; s.polled = False; return UNIT
def m_dur_secs(ex, a, t): return z3.simplify(_to_int(a[0]) * 1000)
def m_elapsed(ex, a, t): return ex.clock - target(a[0])
def m_dur_ge(ex, a, t): return target(a[0]) >= target(a[1])
def m_mem_take(ex, a, t):
    lv = a[0].lv; old = lv.get()
    f = ex.resolve(('WorkerState', 'Default', 'default'))
    lv.set(ex.run(f, [])); return old
def m_ready_into_inner(ex, a, t): return a[0].inner
MODELS[:0] = [
    (r'as Iterator>::enumerate$', m_enumerate), (r'as IntoIterator>::into_iter$', m_into_iter2), (r'as Iterator>::next$', m_it_next),
    (r'^<dyn Service<.*>::poll_ready$', m_dyn_poll_ready), (r'^<dyn Service<.*>::call$', m_dyn_call),
    (r'^<dyn InternalServiceFactory as InternalServiceFactory>::create$', m_dyn_create),
    (r'^<dyn (futures_core::)?Future<.*>::poll$', m_dyn_fut_poll), (r'^Pin::<.*>::as_mut$', m_pin_as_mut), (r'^Pin::<.*>::get_mut$', m_pin_get_mut),
    (r'UnboundedReceiver::<.*>::poll_recv$', m_poll_recv), (r'UnboundedReceiver::<.*>::close$', m_rx_close), (r'UnboundedReceiver::<.*>::poll_recv_many$', m_poll_recv_many), (r'oneshot::Sender::<.*>::send$', m_oneshot_send),
    (r'actix_rt::time::sleep$', m_sleep), (r'^Box::<.*>::pin$', m_box_pin), (r'^<Sleep as (futures_core::)?Future>::poll$', m_sleep_poll), (r'^Sleep::reset$', m_sleep_reset),
    (r'^Duration::from_secs$', m_dur_secs), (r'Instant::elapsed$', m_elapsed), (r'^<Duration as PartialOrd>::ge$', m_dur_ge),
    (r'^std::mem::take::<WorkerState>$', m_mem_take), (r'Ready::<.*>::into_inner$', m_ready_into_inner),
]

# ---- HashMap model (concrete keys) for actix-rt SystemController
class DictObj:
    def __init__(self): self.d = {}
    def model_drop(self, ex): pass
def key_of(ex, k):
    k = z3.simplify(k)
    if not z3.is_bv_value(k): raise Unknown('symbolic HashMap key')
    return k.as_long()
def m_hm_insert(ex, a, t):
    d = target(a[0]); k = key_of(ex, a[1]); old = d.d.get(k); d.d[k] = a[2]
    return Enum('Option', 'Some', [old]) if old is not None else Enum('Option', 'None')
def m_hm_remove(ex, a, t):
    d = target(a[0]); k = key_of(ex, target(a[1])); old = d.d.pop(k, None)
    return Enum('Option', 'Some', [old]) if old is not None else Enum('Option', 'None')
def m_hm_values(ex, a, t):
    # HashMap iteration order is unspecified: every permutation of the entries is a solver choice (maps here hold <= 3 entries)
    d = target(a[0]); items = sorted(d.d.items())
    forced = getattr(ex, 'forced_orders', None)
    if forced and len(items) >= 2:
        o = forced.pop(0); items = sorted(items, key=lambda kv: o.index(str(kv[0])) if str(kv[0]) in o else 99)
    elif len(items) >= 2 and getattr(ex, 'hash_order_choice', True):
        import itertools
        perms = list(itertools.permutations(range(len(items))))
        if len(perms) > 6: raise Unknown('HashMap::values over %d entries' % len(items))
        p = ex.pick('hash_order', perms); items = [items[i] for i in p]
        if hasattr(ex, 'hist'): ex.hist.append('order:' + ''.join(str(k) for k, _ in items))
    return IterObj([Ref(LCell(Cell(v))) for k, v in items])
def m_pin_deref_mut(ex, a, t): return target(a[0])
MODELS[:0] = [(r'HashMap::<.*>::insert$', m_hm_insert), (r'HashMap::<.*>::remove::<', m_hm_remove), (r'HashMap::<.*>::values$', m_hm_values),
              (r'^<Pin<&mut .*> as DerefMut>::deref_mut$', m_pin_deref_mut)]
def m_res_is_ok(ex, a, t): return z3.BoolVal(target(a[0]).variant == 'Ok')
MODELS[:0] = [(r'(?:^|::)Result::<.*>::is_ok$', m_res_is_ok)]

# ---- mio Events / Poll::poll for driving Accept::poll_with as a whole
class EventsObj:
    def __init__(self): self.items = []
    def model_drop(self, ex): pass
class EndOfSchedule(Exception): pass
def m_events_new(ex, a, t): return EventsObj()
def m_poll_poll(ex, a, t):
    ev = target(a[1]); ev.items = [Cell(Struct('Event', [Struct('Token', [z3.BitVecVal(tok, 64)])])) for tok in ex.env_turn(a[2])]
    return Enum('Result', 'Ok', [UNIT])
def m_events_iter(ex, a, t): return IterObj([Ref(LCell(c)) for c in target(a[0]).items])
def m_event_token(ex, a, t): return clone_val(target(a[0]).f[0].v)
def m_usize_from_token(ex, a, t): return a[0].f[0].v
MODELS[:0] = [(r'(?:^|::)Events::with_capacity$', m_events_new), (r'(?:^|::)Poll::poll$', m_poll_poll), (r'(?:^|::)Events::iter$', m_events_iter),
              (r'(?:^|::)Event::token$', m_event_token), (r'^<usize as From<Token>>::from$', m_usize_from_token)]


# ---- coroutines (async blocks) that complete in one resume
def coroutine_body(ex, co):
    loc = co.loc()
    c = [f for n, f in ex.fns.items() if loc in f.types.get(1, '') and f.types.get(1, '').startswith('Pin<&mut {')]
    if len(c) != 1 and getattr(co, 'maker', None):       # `async fn f`: the body is f::{closure#0}, its type prints as `{async fn body of f()}`
        g = ex.fns.get(co.maker + '::{closure#0}')
        if g is not None and 'async fn body' in g.types.get(1, ''): c = [g]
    if len(c) != 1: raise Unknown('coroutine body for %s -> %d candidates' % (co.ty, len(c)))
    return c[0]
def poll_coroutine(ex, co, cx=None):
    """resume the coroutine once; returns the Poll value of its body"""
    f = coroutine_body(ex, co)       # a resume after completion / panic reaches the body's own assert(false, ..)
    return ex.run(f, [Ref(LCell(Cell(co))), cx if cx is not None else Ref(LCell(Cell(ContextObj(WakerObj(0)))))])
def m_call_once(ex, a, t):
    f = a[0]
    if hasattr(f, 'call_once'): return f.call_once(ex)
    if isinstance(f, ClosureVal): return call_closure(ex, f, list(a[1].f) if hasattr(a[1], 'f') else [])
    raise Unknown('call_once on %r' % (f,))
MODELS += [(r'^<F as FnOnce<\(\)>>::call_once$', m_call_once)]
