"""parallel prefix exploration for mirsym prototype drivers: body(ex) must be importable at module level."""
import time, multiprocessing as mp
from mirsym import Exec, Abort

_G = {}
def _run_prefix(prefix):
    mk, body = _G['mk'], _G['body']
    pending = [prefix]; n = 0; viol = {}
    while pending:
        dec = pending.pop()
        ex = mk(); ex.decisions = dec
        try: body(ex, viol)
        except Abort: pass
        # only keep alternatives that extend below this prefix
        pending.extend(ex.pending); n += 1
    return n, viol

def explore(mk, body, nproc=14, seed_paths=200):
    _G['mk'], _G['body'] = mk, body
    # phase 1: sequential BFS-ish until enough open prefixes
    t0 = time.time(); pending = [[]]; n = 0; viol = {}
    while pending and len(pending) < seed_paths:
        dec = pending.pop(0)
        ex = mk(); ex.decisions = dec
        try: body(ex, viol)
        except Abort: pass
        pending.extend(ex.pending); n += 1
    # phase 2: each remaining prefix explored depth-first in a worker process (fork shares _G)
    if pending:
        with mp.get_context('fork').Pool(nproc) as pool:
            for k, v in pool.imap_unordered(_run_prefix, pending, chunksize=1):
                n += k
                for a, b in v.items(): viol.setdefault(a, b)
    return n, viol, time.time() - t0
