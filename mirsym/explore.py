"""Path exploration for mirsym drivers: sequential seeding, then independent decision prefixes in forked workers.

A driver supplies  mk() -> Exec  and  body(ex, acc).  `acc` (Acc) collects violations, obligation counters,
reachability witnesses, samples and statistics and is merged across worker processes."""
import time, os, random, multiprocessing as mp
from collections import Counter
import z3
from mirsym import Exec, Abort, Panic, Unknown


class Acc:
    def __init__(self):
        self.viol = {}            # key -> dict(what, hist, model, ...)
        self.obl = Counter()      # obligation name -> number of solver-decided instances
        self.fail = Counter()
        self.wit = Counter()
        self.samples = []
        self.unknown = []
        self.paths = 0; self.steps = 0; self.queries = 0; self.solver_s = 0.0; self.transitions = 0
        self.states = set()
        self.fn_used = set()

    def merge(self, o):
        for k, v in o.viol.items():
            if k not in self.viol or _hkey(v['hist']) < _hkey(self.viol[k]['hist']): self.viol[k] = v
        self.obl.update(o.obl); self.fail.update(o.fail); self.wit.update(o.wit)
        for s in o.samples:
            if len(self.samples) < 8: self.samples.append(s)
        for u in o.unknown:
            if u not in self.unknown and len(self.unknown) < 20: self.unknown.append(u)
        self.paths += o.paths; self.steps += o.steps; self.queries += o.queries; self.solver_s += o.solver_s
        self.transitions += o.transitions
        self.states |= o.states; self.fn_used |= o.fn_used

    # ---- helpers used by drivers
    def violated(self, ex, name, cond, key=None, what=None, hist=None, extra=None):
        """Obligation `name`: is (path condition AND cond) satisfiable?  cond is a z3 Bool or a Python bool meaning
        'the assertion is violated'. Records the obligation; on sat records the violation with the model."""
        self.obl[name] += 1
        if cond is False: return False
        if cond is True: sat = True; model = ex_model(ex)
        else:
            sat = ex.check_sat(cond) == z3.sat
            model = ex.last_model if sat else None
        if not sat: return False
        self.fail[name] += 1
        k = key or name
        h = list(hist if hist is not None else getattr(ex, 'hist', []))
        if k not in self.viol or _hkey(h) < _hkey(self.viol[k]['hist']):
            self.viol[k] = {'obligation': name, 'what': what or name, 'hist': h,
                            'model': dict(model_dict(model), **getattr(ex, 'sel', {})), 'extra': extra}
        return True

    def to_report(self, rep):
        for k, n in self.obl.items():
            rep.ob(k, 'fail' if self.fail.get(k) else 'pass', n=n)
        for k, n in self.wit.items(): rep.witness(k, n)
        for s in self.samples: rep.sample(s)
        for u in self.unknown: rep.inconc('engine S: ' + u)
        rep.counters['paths'] += self.paths
        rep.counters['states'] += len(self.states) if self.states else self.paths
        rep.counters['transitions'] += self.transitions
        rep.counters['solver_queries'] += self.queries
        rep.solver_s += self.solver_s
        rep.functions |= self.fn_used


def _hkey(h):
    return (len(h), [str(x) for x in h])


def ex_model(ex):
    if ex.check_sat() == z3.sat: return ex.last_model
    return None


def model_dict(m):
    if m is None: return {}
    out = {}
    for d in m.decls():
        v = m[d]
        try: out[d.name()] = v.as_long()
        except Exception: out[d.name()] = str(v)
    return out


_G = {}


def _one(dec, acc):
    mk, body = _G['mk'], _G['body']
    ex = mk(); ex.decisions = list(dec)
    try:
        body(ex, acc)
    except Abort:
        pass
    except Unknown as u:
        acc.unknown.append(str(u)[:300])
    acc.paths += 1; acc.steps += ex.steps; acc.queries += ex.nq; acc.solver_s += ex.tsolve
    acc.fn_used |= ex.fn_used
    return ex.pending


def _run_prefix(prefix):
    acc = Acc(); pending = [prefix]
    deadline = _G.get('deadline')
    while pending:
        if deadline and time.time() > deadline:
            acc.unknown.append('wall cap reached with %d open prefixes in a worker' % len(pending)); break
        pending.extend(_one(pending.pop(), acc))
    return acc


def explore(mk, body, nproc=None, seed_paths=64, wall_cap=None, seed=0):
    """Explore every feasible path of body. Returns Acc."""
    nproc = nproc or int(os.environ.get('VERIF_JOBS', '14'))
    _G['mk'], _G['body'] = mk, body
    _G['deadline'] = time.time() + wall_cap if wall_cap else None
    acc = Acc(); pending = [[]]
    while pending and (len(pending) < seed_paths or nproc <= 1):
        if _G['deadline'] and time.time() > _G['deadline']:
            acc.unknown.append('wall cap reached during seeding'); return acc
        pending.extend(_one(pending.pop(0), acc))
    if pending:
        rnd = random.Random(seed); rnd.shuffle(pending)
        with mp.get_context('fork').Pool(nproc) as pool:
            for a in pool.imap_unordered(_run_prefix, pending, chunksize=1):
                acc.merge(a)
    return acc
