"""Path exploration for mirsym drivers: sequential seeding, then independent decision prefixes in forked workers.

A driver supplies  mk() -> Exec  and  body(ex, acc).  `acc` (Acc) collects violations, obligation counters,
reachability witnesses, samples and statistics and is merged across worker processes."""
import time, os, random, multiprocessing as mp
from collections import Counter
import z3
from mirsym import Exec, Abort, Panic, Unknown


class Acc:
    def __init__(self):
        self.viol = {}            # key -> dict(what, hist, model, ...)
        self.obl = Counter()      # obligation name -> number of solver-decided instances
        self.fail = Counter()
        self.wit = Counter()
        self.samples = []
        self.unknown = []
        self.paths = 0; self.steps = 0; self.queries = 0; self.solver_s = 0.0; self.transitions = 0
        self.states = set()
        self.fn_used = set()

    def merge(self, o):
        for k, v in o.viol.items():
            if k not in self.viol or _hkey(v['hist']) < _hkey(self.viol[k]['hist']): self.viol[k] = v
        self.obl.update(o.obl); self.fail.update(o.fail); self.wit.update(o.wit)
        for s in o.samples:
            if len(self.samples) < 8: self.samples.append(s)
        for u in o.unknown:
            if u not in self.unknown and len(self.unknown) < 20: self.unknown.append(u)
        self.paths += o.paths; self.steps += o.steps; self.queries += o.queries; self.solver_s += o.solver_s
        self.transitions += o.transitions
        self.states |= o.states; self.fn_used |= o.fn_used

    # ---- helpers used by drivers
    def violated(self, ex, name, cond, key=None, what=None, hist=None, extra=None):
        """Obligation `name`: is (path condition AND cond) satisfiable?  cond is a z3 Bool or a Python bool meaning
        'the assertion is violated'. Records the obligation; on sat records the violation with the model."""
        self.obl[name] += 1
        if cond is False: return False
        if cond is True: sat = True; model = ex_model(ex)
        else:
            sat = ex.check_sat(cond) == z3.sat
            model = ex.last_model if sat else None
        if not sat: return False
        self.fail[name] += 1
        k = key or name
        h = list(hist if hist is not None else getattr(ex, 'hist', []))
        if k not in self.viol or _hkey(h) < _hkey(self.viol[k]['hist']):
            self.viol[k] = {'obligation': name, 'what': what or name, 'hist': h,
                            'model': dict(model_dict(model), **getattr(ex, 'sel', {})), 'extra': extra}
        return True

    def to_report(self, rep):
        for k, n in self.obl.items():
            rep.ob(k, 'fail' if self.fail.get(k) else 'pass', n=n)
        for k, n in self.wit.items(): rep.witness(k, n)
        for s in self.samples: rep.sample(s)
        for u in self.unknown: rep.inconc('engine S: ' + u)
        rep.counters['paths'] += self.paths
        rep.counters['states'] += len(self.states) if self.states else self.paths
        rep.counters['transitions'] += self.transitions
        rep.counters['solver_queries'] += self.queries
        rep.solver_s += self.solver_s
        rep.functions |= self.fn_used


def _hkey(h):
    return (len(h), [str(x) for x in h])


def ex_model(ex):
    if ex.check_sat() == z3.sat: return ex.last_model
    return None


def model_dict(m):
    if m is None: return {}
    out = {}
    for d in m.decls():
        v = m[d]
        try: out[d.name()] = v.as_long()
        except Exception: out[d.name()] = str(v)
    return out


_G = {}


def _one(dec, acc):
    mk, body = _G['mk'], _G['body']
    ex = mk(); ex.decisions = list(dec)
    try:
        body(ex, acc)
    except Abort:
        pass
    except Unknown as u:
        acc.unknown.append(str(u)[:300])
    acc.paths += 1; acc.steps += ex.steps; acc.queries += ex.nq; acc.solver_s += ex.tsolve
    acc.fn_used |= ex.fn_used
    return ex.pending


def _run_prefix(prefix):
    acc = Acc(); pending = [prefix]
    deadline = _G.get('deadline')
    while pending:
        if deadline and time.time() > deadline:
            acc.unknown.append('wall cap reached with %d open prefixes in a worker' % len(pending)); break
        pending.extend(_one(pending.pop(), acc))
    return acc


def explore(mk, body, nproc=None, seed_paths=64, wall_cap=None, seed=0):
    """Explore every feasible path of body. Returns Acc."""
    nproc = nproc or int(os.environ.get('VERIF_JOBS', '14'))
    _G['mk'], _G['body'] = mk, body
    _G['deadline'] = time.time() + wall_cap if wall_cap else None
    acc = Acc(); pending = [[]]
    while pending and (len(pending) < seed_paths or nproc <= 1):
        if _G['deadline'] and time.time() > _G['deadline']:
            acc.unknown.append('wall cap reached during seeding'); return acc
        pending.extend(_one(pending.pop(0), acc))
    if pending:
        rnd = random.Random(seed); rnd.shuffle(pending)
        with mp.get_context('fork').Pool(nproc) as pool:
            for a in pool.imap_unordered(_run_prefix, pending, chunksize=1):
                acc.merge(a)
    return acc


# =========================================================================== visited-state pruning
# A driver with natural step boundaries (entry into Poll::poll, end of one channel operation, ...) calls
# `boundary(ex, acc, level, roots)` there. In level mode the explorer expands the frontier level by level: every distinct
# canonical state (real heap + ghost state + path condition, modulo renaming of solver variables) is expanded once.
# Identical signature => isomorphic states => identical futures, so nothing reachable within the depth bound is lost.
import mirsym as _ms


class StopAtBoundary(Exception):
    pass


def canon(roots, solver, pc_fn=None):
    ids = {}; vmap = {}; out = []

    def zexpr(e):
        e = z3.simplify(e)
        for v in _vars(e):
            n = v.decl().name()
            if n not in vmap: vmap[n] = (v, z3.Const('!c%d' % len(vmap), v.sort()))
        if vmap: e = z3.substitute(e, *[p for p in vmap.values()])
        return e.sexpr()

    def walk(o):
        if o is None or isinstance(o, (bool, int, str, float)): out.append(repr(o)); return
        if z3.is_expr(o): out.append(zexpr(o)); return
        if isinstance(o, (list, tuple)):
            out.append('['); [walk(x) for x in o]; out.append(']'); return
        if isinstance(o, dict):
            out.append('{')
            for k in sorted(o, key=repr): out.append(repr(k)); walk(o[k])
            out.append('}'); return
        if isinstance(o, (set, frozenset)):
            out.append('{' + ','.join(sorted(repr(x) for x in o)) + '}'); return
        i = ids.get(id(o))
        if i is not None: out.append('@%d' % i); return
        ids[id(o)] = len(ids)
        if isinstance(o, _ms.Cell): out.append('c'); walk(o.v); return
        if isinstance(o, _ms.Enum): out.append('E' + o.name + '::' + o.variant); [walk(c.v) for c in o.f]; out.append(';'); return
        if isinstance(o, _ms.Struct): out.append('S' + str(o.name)); [walk(c.v) for c in o.f]; out.append(';'); return
        if isinstance(o, _ms.Array): out.append('A'); [walk(c.v) for c in o.e]; out.append(';'); return
        if isinstance(o, _ms.Ref):
            lv = o.lv
            out.append('&')
            if isinstance(lv, _ms.LCell): walk(lv.c)
            else: walk(lv.arr); walk(lv.idx)
            return
        if isinstance(o, (_ms.Unit, _ms.Opaque)): out.append('o'); return
        if isinstance(o, _ms.ClosureVal): out.append('C' + o.ty); [walk(c.v) for c in getattr(o, 'f', [])]; return
        d = getattr(o, '__dict__', None)
        if d is None: out.append(type(o).__name__); return
        out.append('<' + type(o).__name__)
        cf = getattr(o, 'canon_fields', None)
        for k in (sorted(d) if cf is None else cf):
            if k.startswith('_') or callable(d[k]): continue
            out.append(k); walk(d[k])
        out.append('>')

    walk(roots)
    if pc_fn is not None:
        k = pc_fn(solver)
        if k is not None:
            out.append('|PC*|'); out.append(repr(k))
            return '\x1f'.join(out)
    # path condition: keep only the atoms connected (through shared variables) to a variable that occurs in the state;
    # atoms over dead variables only are satisfiable (the path is feasible) and independent of the future
    atoms = []
    for a in solver.assertions():
        vs = [v.decl().name() for v in _vars(a)]
        if vs and all('#' in n for n in vs): continue
        atoms.append((a, set(vs)))
    live = set(vmap)
    changed = True
    while changed:
        changed = False
        for a, vs in atoms:
            if vs & live and not vs <= live: live |= vs; changed = True
    pcs = [zexpr(a) for a, vs in atoms if (vs & live) or not vs]
    out.append('|PC|'); out += pcs
    return '\x1f'.join(out)


def _vars(e):
    seen = set(); res = []
    def go(x):
        if x.get_id() in seen: return
        seen.add(x.get_id())
        if z3.is_const(x) and x.decl().kind() == z3.Z3_OP_UNINTERPRETED: res.append(x); return
        for c in x.children(): go(c)
    go(e)
    return res


def boundary(ex, acc, level, roots, pc_fn=None):
    """Call at a step boundary. In level mode: when the target level is reached, record (signature -> decision prefix)
    and stop the path."""
    stop_at = getattr(ex, 'stop_at', None)
    if stop_at is None or level < stop_at: return
    sig = canon(roots, ex.solver, pc_fn)
    dec = list(ex.decisions[:ex.dpos])
    fr = acc.__dict__.setdefault('frontier', {})
    if sig not in fr or (len(dec), dec) < (len(fr[sig]), fr[sig]): fr[sig] = dec
    raise StopAtBoundary()


def _run_level_task(task):
    prefix, stop_at = task
    acc = Acc(); acc.frontier = {}
    pending = [prefix]
    mk, body = _G['mk'], _G['body']
    deadline = _G.get('deadline')
    while pending:
        if deadline and time.time() > deadline:
            acc.unknown.append('wall cap reached with %d open prefixes in a worker' % len(pending)); break
        dec = pending.pop()
        ex = mk(); ex.decisions = list(dec); ex.stop_at = stop_at
        try: body(ex, acc)
        except (Abort, StopAtBoundary): pass
        except Unknown as u: acc.unknown.append(str(u)[:300])
        acc.paths += 1; acc.steps += ex.steps; acc.queries += ex.nq; acc.solver_s += ex.tsolve; acc.fn_used |= ex.fn_used
        pending.extend(ex.pending)
    return acc


def explore_levels(mk, body, levels, nproc=None, wall_cap=None, seed=0):
    """Level-synchronous exploration with visited-state pruning. `body` must call boundary(ex, acc, k, roots) at the
    k-th boundary (k = 1, 2, ...). Returns (Acc, per-level distinct state counts)."""
    nproc = nproc or int(os.environ.get('VERIF_JOBS', '14'))
    _G['mk'], _G['body'] = mk, body
    _G['deadline'] = time.time() + wall_cap if wall_cap else None
    total = Acc(); frontier = [[]]; counts = []; seen = set(); _G['t0'] = time.time()
    with mp.get_context('fork').Pool(nproc) as pool:
        for lvl in range(1, levels + 1):
            tasks = [(p, lvl) for p in frontier]
            nxt = {}
            if len(tasks) < 2 * nproc:
                # few states: split their one-step expansions into independent decision prefixes first
                pre = Acc(); pre.frontier = {}
                pend = [t[0] for t in tasks]; budget = 40 * nproc
                while pend and len(pend) < 6 * nproc and budget > 0:
                    dec = pend.pop(0); budget -= 1
                    ex = mk(); ex.decisions = list(dec); ex.stop_at = lvl
                    try: body(ex, pre)
                    except (Abort, StopAtBoundary): pass
                    except Unknown as u: pre.unknown.append(str(u)[:300])
                    pre.paths += 1; pre.steps += ex.steps; pre.queries += ex.nq; pre.solver_s += ex.tsolve; pre.fn_used |= ex.fn_used
                    pend.extend(ex.pending)
                total.merge(pre)
                for sig, dec in pre.frontier.items():
                    if sig in seen: continue
                    if sig not in nxt or (len(dec), dec) < (len(nxt[sig]), nxt[sig]): nxt[sig] = dec
                tasks = [(p, lvl) for p in pend]
            it = pool.imap_unordered(_run_level_task, tasks, chunksize=1) if len(tasks) > 1 else map(_run_level_task, tasks)
            for a in it:
                total.merge(a)
                for sig, dec in a.frontier.items():
                    if sig in seen: continue
                    if sig not in nxt or (len(dec), dec) < (len(nxt[sig]), nxt[sig]): nxt[sig] = dec
            seen |= set(nxt)
            frontier = [nxt[s] for s in sorted(nxt)]
            counts.append(len(frontier))
            if os.environ.get('VERIF_VERBOSE'): print('[level %d] new states %d paths %d t=%.0fs' % (lvl, len(frontier), total.paths, time.time() - (_G['t0'])), flush=True)
            total.states |= set(hash(s) for s in nxt)
            if _G['deadline'] and time.time() > _G['deadline']:
                total.unknown.append('wall cap reached at level %d' % lvl); break
            if not frontier: break
    total.level_counts = counts
    return total


def single_var_pc(name, values):
    """Semantic canonical form of a path condition that mentions only the bit-vector variable `name`: the tuple of truth
    values of the whole condition at each of `values` (which must contain every constant the code can compare the variable
    with, plus one representative of 'larger than all of them'). Returns None if another variable occurs."""
    def f(solver):
        res = [True] * len(values); var = None
        for a in solver.assertions():
            vs = _vars(a)
            if vs and all('#' in v.decl().name() for v in vs): continue
            for v in vs:
                if v.decl().name() != name: return None
                var = v
            if var is None: continue
            for i, c in enumerate(values):
                if not res[i]: continue
                t = z3.simplify(z3.substitute(a, (var, z3.BitVecVal(c, var.size()))))
                if z3.is_false(t): res[i] = False
                elif not z3.is_true(t): return None
        return tuple(res)
    return f
