#!/usr/bin/env python3
"""Regenerates /verif/MANIFEST.json from the table below (run after adding a check)."""
import json, os
V = os.path.dirname(os.path.dirname(os.path.abspath(__file__)))
S_TECH = 'solver-based bounded symbolic execution of rustc MIR (mirsym + z3): schedules, inputs and clock are solver variables; visited-state pruning on canonical state signatures'
K_TECH = 'Kani 0.68 bounded model checking (CBMC 6.11 + CaDiCaL) of harnesses over kani::any() inputs, with unwinding assertions'
S_NOTE = ('trusted: the mirsym executor and its callee models of std / mio / tokio / actix-rt items (validated on every run against the natively '
          'compiled mount crate on random concrete schedules); threads = interleavings of atomic shared operations; ')
CLAIMED = {
 'C02': dict(engine='mirsym', tech=S_TECH, text='every schedule of the real accept loop (Accept::poll_with and everything below it, Counter, WorkerCounterGuard) within the stated bounds, with the connection limit a solver variable (any value 1..2^20); plus the Counter::inc/dec kernels for every usize value',
             note=S_NOTE + 'bounds: 1..3 workers, total connections and environment actions per poll turn as listed in the evidence; exploration runs to a fixpoint of distinct states or the stated number of poll turns', ref='§5 C02'),
 'C03': dict(engine='mirsym', tech=S_TECH, text='at every state in which the accept thread is about to block with nothing pending (no wake-up, no undelivered listener event): spare capacity implies the worker is marked available, and no connection is left waiting while a live worker has spare capacity; includes the window between send and inc_counter',
             note=S_NOTE + 'liveness is reduced to safety at quiescence + the contract that a queued mio wake-up / listener event is delivered; bounds as in the evidence', ref='§5 C03'),
 'C05': dict(engine='mirsym', tech=S_TECH, text='pause/resume/stop commands, accept errors of every kind and clock advances (virtual time as solver variables) in every order against the real accept loop and real socket.rs (TCP and Unix-domain listeners)',
             note=S_NOTE + 'edge-triggered readiness model; "pause has taken effect" = the loop iteration that processed it has finished; bounds as in the evidence', ref='§5 C05'),
 'C01': dict(engine='mirsym', tech=S_TECH, text='accept side: every stream accepted by the real accept loop is enqueued at exactly one worker with its listener\'s token (TCP and Unix-domain listeners, pause/resume/stop, worker faults); worker side: the real ServerWorker::poll calls the k-th queued connection exactly once, in order, on services[token]',
             note=S_NOTE + 'scripted dyn Service objects stand for the user services; bind/listen, fd conversion (FromStream::from_mio) and the kernel\'s accept are outside; bounds as in the evidence', ref='§5 C01'),
 'C04': dict(engine='mirsym', tech=S_TECH, text='(a) Availability::{set_available,get_available,available,offset} with fully symbolic [u128;4], idx, j, b: loop-free, decided for every value (all 512 indices, panic iff idx >= 512); (b) in every explored schedule: dispatch only to workers marked available and below the limit, and any W consecutive dispatches while no worker is saturated or marked unavailable go to W distinct workers',
             note=S_NOTE + 'the window claim is stated for windows in which every availability bit is set (a worker whose release notification is still in flight is legitimately skipped); bounds as in the evidence', ref='§5 C04'),
 'C06': dict(engine='mirsym', tech=S_TECH, text='worker side: Stop handling and the Shutdown arm of the real ServerWorker::poll with symbolic clock and symbolic shutdown_timeout (idle/forced complete at once, graceful completes only when idle or after the timeout, and does complete then; queued connections released); accept side: the real loop returns exactly when Stop is processed; ServerInner::map_signal',
             note=S_NOTE + 'NOT covered (async fn joining a std::thread::JoinHandle, real signals, the 300 ms System::stop delay): ServerInner::handle_cmd(Stop) as a whole, ServerHandle::stop future resolution; see DESIGN.md §6', ref='§5 C06'),
 'C07': dict(engine='mirsym', tech=S_TECH, text='every readiness script (Pending/Ready/Err chosen by the solver at every poll_ready) of 1..3 scripted services against the real ServerWorker::poll, check_readiness, restart_service: calls only right after all services answered ready, failed service alone re-created once, no queued connection lost, order kept',
             note=S_NOTE + 'bounds: services, connections, polls and Pending/Err budgets as in the evidence', ref='§5 C07'),
 'C08': dict(engine='mirsym', tech=S_TECH, text='worker death at any point (receiver dropped; outstanding guards dropped later one by one = late notifications), replacement handle arrival, in every order against the real accept loop: no panic, no spin, one fault report per dead worker, dispatching connection re-routed, replacement rejoins the rotation',
             note=S_NOTE + 'NOT covered: ServerInner::handle_cmd(WorkerFaulted) (starts threads); how a worker thread dies; bounds as in the evidence', ref='§5 C08'),
 'C09': dict(engine='mirsym', tech=S_TECH, text='the real <SystemController as Future>::poll and System::stop_with_code from the MIR of the actix-rt mount crate: every sequence of Register/Deregister/Exit commands (symbolic i32 exit codes, one or two Exits) interleaved with polls: first exit code wins and is delivered once, exactly the arbiters registered at that moment receive Stop',
             note='PARTIAL. trusted: mirsym + callee models of tokio mpsc/oneshot and HashMap (validated per run against the mount crate compiled natively with the REAL tokio). "From any thread" = position in the linearizable command channel. NOT covered: Arbiter::join returning, busy arbiters reaching their Stop (tokio scheduling), thread-locals, run()\'s io::Error mapping', ref='§5 C09'),
 'C10': dict(engine='mirsym', tech=S_TECH, text='the real <ArbiterRunner as Future>::poll and ArbiterHandle::{spawn, spawn_fn, stop, clone} from the MIR of the actix-rt mount crate: every command sequence through the owner handle and a clone: tasks start in send order, at most once, nothing sent after stop starts, spawn is false exactly when the loop is gone, the loop ends exactly on stop or when all handles are gone',
             note='PARTIAL. trusted as for C09 (native validation runs the real tokio LocalSet). NOT covered: "on the arbiter\'s own thread", Arbiter::current()/System::current(), join(), block_on\'s return value, panicking tasks', ref='§5 C10'),
 'C11': dict(engine='kani', tech=K_TECH, text='real actix-service combinators over scripted leaves with symbolic scripts (Pending counts, Ok/Err, payloads, mapper constants, request, config): output equals the reference composition; second stage iff first succeeded; factories build each inner service once with the supplied config and fail with the (temporally) first init error',
             note='one harness per concrete tree: 13 service trees and 8 factory trees of depth <= 2 (hand-enumerated, listed in the evidence); deeper trees and `then` are outside', ref='§5 C11'),
 'C12': dict(engine='kani', tech=K_TECH, text='readiness of combined services (ready only if all inner ready; inner error surfaces, mapped; Pending => every still-pending inner service polled with the current waker) and the polling contract of combinator futures (fresh waker identity per poll; no poll after completion; stages at most once; pending only while an inner future is pending)',
             note='same trees as C11 (service trees) plus 7 readiness trees', ref='§5 C12'),
 'C13': dict(engine='kani', tech=K_TECH, text='one Framed::poll_next per harness from an arbitrary pre-state satisfying the representation invariant, symbolic buffered bytes, symbolic first transport answer; the invariant is re-established, so by induction over polls decoding is independent of the arrival pattern',
             note='trusted: model crates bytes/memchr/tokio-io/tokio-util (DESIGN.md §3.2); the induction step on paper; bounds K + C <= 7 bytes; real BytesMut memory management and the 1 KiB / 8 KiB marks are outside', ref='§5 C13'),
 'C14': dict(engine='kani', tech=K_TECH, text='one sink operation (start_send + poll_flush / poll_close, poll_ready) per harness from a pre-state with symbolic buffered bytes against a transport whose every answer is symbolic: conservation of bytes, success only when drained, WriteZero, shutdown after the last write',
             note='trusted: model crates (DESIGN.md §3.2); bounds: <= 3 poll_write per harness, 2-byte items, K <= 3; the 8 KiB high-water mark is beyond the 8-byte model buffer', ref='§5 C14'),
 'C15': dict(engine='kani', tech=K_TECH, text='LinesCodec decode / decode_eof / encode / round trip for every byte string of the stated lengths (all 256 byte values), against an independent reference splitter and UTF-8 validator',
             note='trusted: model bytes and memchr; bounds N <= 3 quick / 5 thorough', ref='§5 C15'),
 'C17': dict(engine='kani', tech=K_TECH, text='real actix_utils::counter::Counter and local_waker::LocalWaker under symbolic operation sequences (acquire, drop any guard, query availability with waker j, total, via either clone) with symbolic capacity: available <=> live < capacity, total == live, the most recently refused waker is woken when a drop takes the count from capacity to capacity-1; LocalWaker register/wake/take against a one-slot reference, exact wake counts',
             note='bounds: 6 ops quick / 9 thorough for the counter, 6 for LocalWaker; capacity 0..3; no models', ref='§5 C17'),
 'C18': dict(engine='mirsym', tech=S_TECH, text='PARTIAL: the rustls-0_23 and OpenSSL acceptor services, one run each (Acceptor::new_service, AcceptorService::{poll_ready,call}, AcceptFut::poll) with the real actix-utils Counter and local-waker: every order of readiness queries, calls, polls, drops and clock advances with up to 3-4 concurrent calls; handshake answers, the timeout, the maximum and clock increments are solver variables: Ok only from a completed handshake, Tls error only from a failed one, Timeout exactly at the first poll at/after the deadline, not-ready exactly while in-progress handshakes reach the maximum, and the waiting task is woken when one ends (success, error, timeout, drop)',
             note='trusted: mirsym + models (scripted tokio_rustls::Accept / tokio_openssl::SslStream::poll_accept, virtual-clock Sleep, thread_local as one Counter per world), validated per run against the real actix-tls compiled natively with the model back end. NOT covered: the native-tls / older rustls acceptors (same shape, not encoded), and everything inside the TLS library: real handshakes, stalled/garbage clients, bytes arriving unchanged', ref='§5 C18'),
 'C19': dict(engine='mirsym', tech=S_TECH, text='PARTIAL: ConnectInfo builders, ResolverService::call precedence, ResolverFut::poll (resolved, default-lookup and custom-resolver arms; the custom arm and `async fn connect` run as the compiler-generated coroutine state machines with suspension), TcpConnectorFut fallback loop, the connect() body (v4/v6 socket, bind to the local address with port 0), ConnectServiceResponse state machine and the rustls-0_23 and OpenSSL TlsConnectorService: pre-resolved requests are never re-resolved, IP literals are dialled at the request port without lookup, other hosts go through the resolver once with (hostname, port); empty -> NoRecords, failure -> Resolver, unresolved TCP input -> Unresolved; dial order = list order, stop at first success returning that stream, all fail -> Io(last); local bind address reaches every dial; the TLS connector hands exactly Connection::hostname() to the back end, invalid name -> error (rustls; OpenSSL passes every name to the library), failure propagated, success wraps the same stream and keeps the request',
            note='trusted: mirsym + models (scripted dial / lookup / handshake futures logging their arguments), validated per run against the real actix-tls connector compiled natively with the same scripted back ends (166 traces quick); counterexamples are replayed natively and judged on the native trace (except the default-lookup arm, which natively is the real getaddrinfo). NOT covered: Host for String/&str parsing, real DNS, certificate validity / issuers / data integrity (inside the TLS library)', ref='§5 C19'),
 'C20': dict(engine='kani', tech=K_TECH, text='real bytestring on the real bytes crate: every fallible constructor accepts exactly the byte strings str::from_utf8 (and an independent validator) accepts, for every byte string of the stated lengths; split_at panics exactly off char boundaries; slice_ref, Eq, Ord, Hash, Deref agree with str',
             note='no models; bounds: lengths 0..4 quick / 0..5 thorough, one harness per concrete length', ref='§5 C20'),
 'C16': dict(engine='mirsym', tech=S_TECH, text='every operation sequence on the real local-channel (MIR of mpsc.rs + local-waker) up to the depth bound with symbolic payloads and symbolic acting sender, reference queue model stepped alongside',
             note='trusted: mirsym executor and its callee models of Rc/RefCell/VecDeque/Cell/Waker (validated per run against the native build on random concrete sequences); bounds: sequence length 6 (quick) / 8 (thorough), <=3 senders', ref='§5 C16'),
}
REASONS_PENDING = 'check under construction in this session (see DESIGN.md §5); not claimed until its check is committed'

def main():
    props = [json.loads(l) for l in open(os.path.join(V, 'properties.jsonl'))]
    checks = []
    for p in props:
        pid = p['id']
        if pid not in CLAIMED: continue
        c = CLAIMED[pid]
        checks.append({'property_id': pid, 'quick_cmd': './check %s --tier quick' % pid, 'thorough_cmd': './check %s --tier thorough' % pid,
                       'evidence_file': 'evidence/%s.json' % pid, 'replay_cmd_template': './check %s --replay {path}' % pid, 'engine': c['engine'],
                       'level_claimed': {'category': 'model_checking', 'text': c['text'], 'design_ref': 'DESIGN.md ' + c['ref']},
                       'level_note': c['note'], 'technique': c['tech']})
    na_file = os.path.join(V, 'tools', 'not_applicable.json')
    na_reasons = json.load(open(na_file)) if os.path.exists(na_file) else {}
    man = {'version': 1, 'setup_cmd': './check --setup',
           'hooks': {'guard': 'none (no source hooks: /repo files are compiled in place or #[path]/include!-mounted by crates under /verif; cfg(kani) is set only by cargo-kani on /verif crates)',
                     'enable': 'not needed - checks build /repo\'s working tree as it is',
                     'baseline_off_cmd': 'cd /repo && cargo test --workspace --no-fail-fast --offline', 'source_commits': [], 'add_only': True},
           'engines': [{'name': 'mirsym', 'path': 'mirsym/', 'serves_properties': sorted(k for k, v in CLAIMED.items() if v['engine'] == 'mirsym'),
                        'kind_free_text': 'symbolic executor for rustc textual MIR (dumped from /repo on every run); z3 decides every branch and assertion'},
                       {'name': 'kani', 'path': 'harness/', 'serves_properties': sorted(k for k, v in CLAIMED.items() if v['engine'] == 'kani'),
                        'kind_free_text': 'Kani proof harnesses compiled with the real crates (CBMC back end)'}],
           'checks': checks,
           'not_applicable': [{'property_id': p['id'], 'reason': na_reasons.get(p['id'], REASONS_PENDING)} for p in props if p['id'] not in CLAIMED],
           'notes': 'see DESIGN.md; known_findings.json lists fixed defects (fix: commits in /repo) and known findings'}
    json.dump(man, open(os.path.join(V, 'MANIFEST.json'), 'w'), indent=1)
    print('claimed', [c['property_id'] for c in checks])

if __name__ == '__main__': main()
