#!/bin/bash
# try_seed.sh <patch.diff> <log> <check id>... : apply a seeded change to /repo, run the checks, always restore /repo
patch=$1; log=$2; shift 2
cd /repo || exit 1
if [ -n "$(git status --porcelain)" ]; then echo "REPO NOT CLEAN" > $log; exit 1; fi
git apply "$patch" || { echo "PATCH DOES NOT APPLY" > $log; exit 1; }
: > $log
for c in "$@"; do (cd /verif && ./check $c >> $log 2>&1; echo "exit=$? ($c)" >> $log); done
git -C /repo checkout -- .
echo "DONE" >> $log
