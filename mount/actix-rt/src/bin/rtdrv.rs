use std::io::BufRead;
fn main() {
    let mode = std::env::args().nth(1).unwrap_or_else(|| "system".into());
    for line in std::io::stdin().lock().lines() {
        let line = line.unwrap();
        println!("{}", if mode == "arbiter" { mount_actix_rt::drv_arbiter(&line) } else { mount_actix_rt::drv_system(&line) });
    }
}
