//! Mount crate: actix-rt's `arbiter.rs`, `runtime.rs` and `system.rs` taken from /repo byte for byte (include! / #[path])
//! and compiled against the real tokio. Only the crate-root glue of actix-rt/src/lib.rs that these modules refer to is
//! replicated here. The `drv` child modules are native action drivers (differential validation / replay of engine S).
#![allow(dead_code, unused_imports, clippy::all)]
use std::future::Future;
mod arbiter {
    include!("/repo/actix-rt/src/arbiter.rs");
    #[cfg(feature = "drv")] pub(crate) mod drv;
}
#[path = "/repo/actix-rt/src/runtime.rs"] mod runtime;
mod system {
    include!("/repo/actix-rt/src/system.rs");
    #[cfg(feature = "drv")] pub(crate) mod drv;
}
use tokio::task::JoinHandle;
pub use self::{arbiter::{Arbiter, ArbiterHandle}, runtime::Runtime, system::{System, SystemRunner}};
#[track_caller]
#[inline]
pub fn spawn<Fut>(f: Fut) -> JoinHandle<Fut::Output> where Fut: Future + 'static, Fut::Output: 'static { tokio::task::spawn_local(f) }
#[cfg(feature = "drv")] pub fn drv_system(line: &str) -> String { system::drv::run(line) }
#[cfg(feature = "drv")] pub fn drv_arbiter(line: &str) -> String { arbiter::drv::run(line) }
