//! Native driver for `<SystemController as Future>::poll` (real tokio channels).
//! line: ops  reg:<k> dereg:<k> die:<k> (arbiter k's receiver is closed: its loop has ended) exit:<code> poll   -> after every poll: "P=<pending|ready> code=<none|n> stops=[a,b,c]"
use super::*;
use crate::arbiter::{ArbiterCommand, ArbiterHandle};
fn noop_waker() -> std::task::Waker {
    use std::task::{RawWaker, RawWakerVTable, Waker};
    fn cl(_: *const ()) -> RawWaker { RawWaker::new(std::ptr::null(), &VT) }
    fn no(_: *const ()) {}
    static VT: RawWakerVTable = RawWakerVTable::new(cl, no, no, no);
    unsafe { Waker::from_raw(RawWaker::new(std::ptr::null(), &VT)) }
}
pub(crate) fn run(line: &str) -> String {
    let (stop_tx, mut stop_rx) = oneshot::channel::<i32>();
    let (sys_tx, sys_rx) = mpsc::unbounded_channel::<SystemCommand>();
    let mut ctl = SystemController::new(sys_rx, stop_tx);
    let mut arbs: Vec<(mpsc::UnboundedSender<ArbiterCommand>, mpsc::UnboundedReceiver<ArbiterCommand>)> = (0..3).map(|_| mpsc::unbounded_channel()).collect();
    let mut stops = [0usize; 3]; let mut code: Option<i32> = None;
    let w = noop_waker(); let mut cx = Context::from_waker(&w);
    let mut out = Vec::new();
    for op in line.split_whitespace() {
        if let Some(k) = op.strip_prefix("reg:") { let k: usize = k.parse().unwrap(); let _ = sys_tx.send(SystemCommand::RegisterArbiter(k, ArbiterHandle::new(arbs[k].0.clone()))); }
        else if let Some(k) = op.strip_prefix("dereg:") { let _ = sys_tx.send(SystemCommand::DeregisterArbiter(k.parse().unwrap())); }
        else if let Some(k) = op.strip_prefix("die:") { let k: usize = k.parse().unwrap(); arbs[k].1.close(); while arbs[k].1.try_recv().is_ok() {} }
        else if let Some(c) = op.strip_prefix("exit:") { let _ = sys_tx.send(SystemCommand::Exit(c.parse().unwrap())); }
        else if op == "poll" {
            let r = Pin::new(&mut ctl).poll(&mut cx);
            for (k, a) in arbs.iter_mut().enumerate() { while let Ok(c) = a.1.try_recv() { if matches!(c, ArbiterCommand::Stop) { stops[k] += 1; } } }
            if code.is_none() { if let Ok(c) = stop_rx.try_recv() { code = Some(c); } }
            out.push(format!("P={} code={} stops=[{},{},{}]", if r.is_ready() { "ready" } else { "pending" }, code.map(|c| c.to_string()).unwrap_or("none".into()), stops[0], stops[1], stops[2]));
        }
    }
    out.join(" ; ")
}
