//! Native driver for `<ArbiterRunner as Future>::poll` and the handle methods (real tokio LocalSet).
//! line: ops  spawn:<h>:<tag> spawnfn:<h>:<tag> stop:<h> clone:<h> droph:<h> dropr poll
//!   -> per op with a result: "r=<0|1>"; after every poll: "P=<pending|ready> ran=[tags...]"
use super::*;
use std::sync::{Arc, Mutex};
pub(crate) fn run(line: &str) -> String {
    let rt = tokio::runtime::Builder::new_current_thread().enable_all().build().unwrap();
    let local = tokio::task::LocalSet::new();
    let (tx, rx) = mpsc::unbounded_channel::<ArbiterCommand>();
    let mut handles: Vec<Option<ArbiterHandle>> = vec![Some(ArbiterHandle::new(tx))];
    let mut runner = Some(ArbiterRunner { rx });
    let log: Arc<Mutex<Vec<u32>>> = Arc::new(Mutex::new(Vec::new()));
    let mut out = Vec::new(); let mut done = false;
    for op in line.split_whitespace() {
        let p: Vec<&str> = op.split(':').collect();
        let h = |i: usize| p.get(i).map(|s| s.parse::<usize>().unwrap()).unwrap_or(0);
        match p[0] {
            "spawn" => { let l = log.clone(); let tag = h(2) as u32; let r = handles[h(1)].as_ref().unwrap().spawn(async move { l.lock().unwrap().push(tag); }); out.push(format!("r={}", r as u8)); }
            "spawnfn" => { let l = log.clone(); let tag = h(2) as u32; let r = handles[h(1)].as_ref().unwrap().spawn_fn(move || { l.lock().unwrap().push(tag); }); out.push(format!("r={}", r as u8)); }
            "stop" => { let r = handles[h(1)].as_ref().unwrap().stop(); out.push(format!("r={}", r as u8)); }
            "clone" => { let c = handles[h(1)].as_ref().unwrap().clone(); handles.push(Some(c)); }
            "droph" => { handles[h(1)] = None; }
            "dropr" => { runner = None; }
            "poll" => {
                let mut ready = done;
                if let (Some(r), false) = (runner.as_mut(), done) {
                    ready = local.block_on(&rt, async { std::future::poll_fn(|cx| std::task::Poll::Ready(Pin::new(&mut *r).poll(cx).is_ready())).await });
                    if ready { done = true; }
                    // let the spawned tasks run
                    local.block_on(&rt, async { for _ in 0..4 { tokio::task::yield_now().await; } });
                }
                if done { runner = None; }   // block_on(ArbiterRunner) drops the runner (and its receiver) once it completes
                out.push(format!("P={} ran={:?}", if ready { "ready" } else { "pending" }, log.lock().unwrap()));
            }
            _ => panic!("op"),
        }
    }
    out.join(" ; ")
}
