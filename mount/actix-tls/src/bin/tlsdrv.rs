//! Native driver for the actix-tls acceptor service (real actix-tls, real actix-utils Counter / LocalWaker, model
//! tokio-rustls / actix-rt / tokio). One schedule per stdin line, one trace per stdout line.
//!   accept:  "limit=<n> timeout=<ms> | ready:<wid> call poll:<i>:<p|o|e> drop:<i> tick:<ms>"
//!   trace items: R=ok|pending  C  P=pending|ok|tls|timeout  D  T   each followed by "/w<id>=<wakes during the op>,..."
use actix_service::{Service, ServiceFactory};
use actix_tls::accept::{openssl as ossl, rustls_0_23::{reexports::ServerConfig, Acceptor, AcceptFut}, TlsError};
use std::{future::Future, io::BufRead, pin::Pin, task::{Context, Poll, RawWaker, RawWakerVTable, Waker}, time::Duration};

static mut WAKES: [u32; 16] = [0; 16];
fn waker(id: usize) -> Waker {
    fn cl(p: *const ()) -> RawWaker { RawWaker::new(p, &VT) }
    fn wk(p: *const ()) { unsafe { WAKES[p as usize] += 1; } }
    fn no(_: *const ()) {}
    static VT: RawWakerVTable = RawWakerVTable::new(cl, wk, wk, no);
    unsafe { Waker::from_raw(RawWaker::new(id as *const (), &VT)) }
}
type Io = actix_rt::net::TcpStream;

fn run(line: &str) -> String {
    if line.contains("flavour=openssl") { return run_openssl(line); }
    let (head, sched) = line.split_once('|').unwrap();
    let mut limit = 1usize; let mut timeout = 3000u64;
    for kv in head.split_whitespace() { let (k, v) = kv.split_once('=').unwrap(); match k { "limit" => limit = v.parse().unwrap(), "timeout" => timeout = v.parse().unwrap(), _ => {} } }
    #[allow(static_mut_refs)] unsafe { WAKES = [0; 16]; tokio_rustls::HS_NEXT = 0; }
    actix_rt::time::set_now_ms(1000);
    actix_tls::accept::max_concurrent_tls_connect(limit);
    let mut a = Acceptor::new(ServerConfig);
    a.set_handshake_timeout(Duration::from_millis(timeout));
    let w0 = waker(15); let mut cx0 = Context::from_waker(&w0);
    let a = a.clone();        // as a server does per worker: the service comes from a clone of the configured acceptor
    let mut sf = Box::pin(ServiceFactory::<Io>::new_service(&a, ()));
    let svc = match sf.as_mut().poll(&mut cx0) { Poll::Ready(Ok(s)) => s, _ => return "INIT-FAILED".into() };
    let mut futs: Vec<Option<Pin<Box<AcceptFut<Io>>>>> = Vec::new();
    let mut out = Vec::new();
    for op in sched.split_whitespace() {
        #[allow(static_mut_refs)] let before = unsafe { WAKES };
        let p: Vec<&str> = op.split(':').collect();
        let r: String = match p[0] {
            "ready" => { let w = waker(p[1].parse().unwrap()); let mut cx = Context::from_waker(&w);
                         match Service::<Io>::poll_ready(&svc, &mut cx) { Poll::Ready(Ok(())) => "R=ok".into(), Poll::Ready(Err(_)) => "R=err".into(), Poll::Pending => "R=pending".into() } }
            "call" => { futs.push(Some(Box::pin(Service::<Io>::call(&svc, actix_rt::net::TcpStream(7))))); "C".into() }
            "poll" => {
                let i: usize = p[1].parse().unwrap();
                #[allow(static_mut_refs)] unsafe { tokio_rustls::HS[i] = tokio_rustls::Hs { pend: (p[2] == "p") as u8, ok: p[2] == "o" }; }
                let w = waker(14); let mut cx = Context::from_waker(&w);
                let res = futs[i].as_mut().unwrap().as_mut().poll(&mut cx);
                match res {
                    Poll::Pending => "P=pending".into(),
                    Poll::Ready(r) => { futs[i] = None; match r { Ok(_) => "P=ok".into(), Err(TlsError::Tls(_)) => "P=tls".into(), Err(TlsError::Timeout) => "P=timeout".into(), Err(_) => "P=other".into() } }
                }
            }
            "drop" => { futs[p[1].parse::<usize>().unwrap()] = None; "D".into() }
            "tick" => { actix_rt::time::set_now_ms(actix_rt::time::now_ms() + p[1].parse::<u64>().unwrap()); "T".into() }
            _ => panic!("op"),
        };
        #[allow(static_mut_refs)] let after = unsafe { WAKES };
        let d: Vec<String> = (0..14).filter(|k| after[*k] != before[*k]).map(|k| format!("w{}={}", k, after[k] - before[k])).collect();
        out.push(format!("{}/{}", r, d.join(",")));
    }
    out.join(" ")
}

fn run_openssl(line: &str) -> String {
    let (head, sched) = line.split_once('|').unwrap();
    let mut limit = 1usize; let mut timeout = 3000u64;
    for kv in head.split_whitespace() { let (k, v) = kv.split_once('=').unwrap(); match k { "limit" => limit = v.parse().unwrap(), "timeout" => timeout = v.parse().unwrap(), _ => {} } }
    #[allow(static_mut_refs)] unsafe { WAKES = [0; 16]; tokio_openssl::HS_NEXT = 0; }
    actix_rt::time::set_now_ms(1000);
    actix_tls::accept::max_concurrent_tls_connect(limit);
    let mut a = ossl::Acceptor::new(openssl::ssl::SslAcceptor::model());
    a.set_handshake_timeout(Duration::from_millis(timeout));
    let w0 = waker(15); let mut cx0 = Context::from_waker(&w0);
    let a = a.clone();        // as a server does per worker: the service comes from a clone of the configured acceptor
    let mut sf = Box::pin(ServiceFactory::<Io>::new_service(&a, ()));
    let svc = match sf.as_mut().poll(&mut cx0) { Poll::Ready(Ok(s)) => s, _ => return "INIT-FAILED".into() };
    let mut futs: Vec<Option<Pin<Box<ossl::AcceptFut<Io>>>>> = Vec::new();
    let mut out = Vec::new();
    for op in sched.split_whitespace() {
        #[allow(static_mut_refs)] let before = unsafe { WAKES };
        let p: Vec<&str> = op.split(':').collect();
        let r: String = match p[0] {
            "ready" => { let w = waker(p[1].parse().unwrap()); let mut cx = Context::from_waker(&w);
                         match Service::<Io>::poll_ready(&svc, &mut cx) { Poll::Ready(Ok(())) => "R=ok".into(), Poll::Ready(Err(_)) => "R=err".into(), Poll::Pending => "R=pending".into() } }
            "call" => { futs.push(Some(Box::pin(Service::<Io>::call(&svc, actix_rt::net::TcpStream(7))))); "C".into() }
            "poll" => {
                let i: usize = p[1].parse().unwrap();
                #[allow(static_mut_refs)] unsafe { tokio_openssl::HS[i] = tokio_openssl::Hs { pend: (p[2] == "p") as u8, ok: p[2] == "o" }; }
                let w = waker(14); let mut cx = Context::from_waker(&w);
                let res = futs[i].as_mut().unwrap().as_mut().poll(&mut cx);
                match res {
                    Poll::Pending => "P=pending".into(),
                    Poll::Ready(r) => { futs[i] = None; match r { Ok(_) => "P=ok".into(), Err(TlsError::Tls(_)) => "P=tls".into(), Err(TlsError::Timeout) => "P=timeout".into(), Err(_) => "P=other".into() } }
                }
            }
            "drop" => { futs[p[1].parse::<usize>().unwrap()] = None; "D".into() }
            "tick" => { actix_rt::time::set_now_ms(actix_rt::time::now_ms() + p[1].parse::<u64>().unwrap()); "T".into() }
            _ => panic!("op"),
        };
        #[allow(static_mut_refs)] let after = unsafe { WAKES };
        let d: Vec<String> = (0..14).filter(|k| after[*k] != before[*k]).map(|k| format!("w{}={}", k, after[k] - before[k])).collect();
        out.push(format!("{}/{}", r, d.join(",")));
    }
    out.join(" ")
}

fn main() {
    for line in std::io::stdin().lock().lines() {
        let line = line.unwrap();
        // MAX_CONN_COUNTER is a thread-local initialised from MAX_CONN at first use: one fresh thread per schedule
        let h = std::thread::spawn(move || run(&line));
        println!("{}", h.join().unwrap_or_else(|_| "PANIC".into()));
    }
}
