//! Native driver for the actix-tls connector (real actix-tls resolver / TCP connector / connector service / TLS connector
//! services, model actix-rt with scripted dials, model tokio-rustls / tokio-openssl with scripted handshakes).
//! One case per stdin line, one trace per stdout line.
//!   "conn host=<h> hport=<n|-> preset=<n> setport=<n|-> local=<ip|-> resolver=<default|custom> | <answers>"
//!       answers, in the order they are requested: lookup  p* (list2|list1|empty|err);  per dial  p* (ok|err)
//!       trace: "res=ok:<port>|err:<variant>[:<os error>] dials=[ip:port@local,..] lookups=[host:port,..]"
//!   "tls flavour=<rustls_0_23|openssl> host=<h> | p* (ok|err)"
//!       trace: "res=ok:<stream id>:<request host>|err names=[..]"
use actix_service::Service;
use actix_tls::connect::{ConnectError, ConnectInfo, Connection, Connector, Host, Resolve, Resolver};
use std::{cell::RefCell, future::Future, io::BufRead, net::{IpAddr, SocketAddr}, pin::Pin, rc::Rc, task::{Context, Poll, RawWaker, RawWakerVTable, Waker}};

fn waker() -> Waker {
    fn cl(p: *const ()) -> RawWaker { RawWaker::new(p, &VT) }
    fn no(_: *const ()) {}
    static VT: RawWakerVTable = RawWakerVTable::new(cl, no, no, no);
    unsafe { Waker::from_raw(RawWaker::new(std::ptr::null(), &VT)) }
}
#[derive(Clone, Debug)] struct H { host: String, port: Option<u16> }
impl Host for H { fn hostname(&self) -> &str { &self.host } fn port(&self) -> Option<u16> { self.port } }

#[derive(Default)] struct Script { lookup: Vec<String>, log: Vec<String> }
struct Custom(Rc<RefCell<Script>>);
struct LookupFut(Rc<RefCell<Script>>);
impl Future for LookupFut {
    type Output = Result<Vec<SocketAddr>, Box<dyn std::error::Error>>;
    fn poll(self: Pin<&mut Self>, _: &mut Context<'_>) -> Poll<Self::Output> {
        let mut s = self.0.borrow_mut();
        let a = if s.lookup.is_empty() { "list2".to_string() } else { s.lookup.remove(0) };
        match a.as_str() {
            "p" => Poll::Pending,
            "err" => Poll::Ready(Err("custom resolver error".into())),
            l => { let n = match l { "list2" => 2, "list1" => 1, _ => 0 };
                   Poll::Ready(Ok((0..n).map(|k| SocketAddr::new(IpAddr::from([10, 0, 0, k as u8 + 1]), 7000 + k as u16)).collect())) }
        }
    }
}
impl Resolve for Custom {
    fn lookup<'a>(&'a self, host: &'a str, port: u16) -> futures_core::future::LocalBoxFuture<'a, Result<Vec<SocketAddr>, Box<dyn std::error::Error>>> {
        self.0.borrow_mut().log.push(format!("{}:{}", host, port));
        Box::pin(LookupFut(self.0.clone()))
    }
}

fn kv(head: &str) -> std::collections::HashMap<String, String> {
    head.split_whitespace().filter_map(|x| x.split_once('=')).map(|(a, b)| (a.to_string(), b.to_string())).collect()
}
fn opt_u16(s: &str) -> Option<u16> { if s == "-" { None } else { Some(s.parse().unwrap()) } }

fn run_conn(line: &str) -> String {
    let (head, ans) = line.split_once('|').unwrap();
    let c = kv(head);
    // split the flat answer list into the lookup group and one group per dial
    let script = Rc::new(RefCell::new(Script::default()));
    let mut dials = Vec::new(); let mut pend = 0u8; let mut ps: Vec<String> = Vec::new(); let mut k = 0;
    for a in ans.split_whitespace() {
        match a {
            "p" => { pend += 1; ps.push("p".into()); }
            "list2" | "list1" | "empty" | "lerr" => { let mut s = script.borrow_mut(); s.lookup.append(&mut ps); s.lookup.push(if a == "lerr" { "err".into() } else { a.into() }); pend = 0; }
            "ok" | "err" => { dials.push(actix_rt::net::Outcome { pend, ok: a == "ok", err_id: 100 + k }); k += 1; pend = 0; ps.clear(); }
            _ => panic!("answer {}", a),
        }
    }
    #[allow(static_mut_refs)] unsafe { actix_rt::net::ENV = actix_rt::net::Env { script: dials, next: 0, dialled: Vec::new() }; }
    let host = H { host: c["host"].clone(), port: opt_u16(&c["hport"]) };
    let mut info = ConnectInfo::new(host);
    if let Some(p) = opt_u16(&c["setport"]) { info = info.set_port(p); }
    let npre: usize = c["preset"].parse().unwrap();
    if npre > 0 { info = info.set_addrs((0..npre).map(|k| SocketAddr::new(IpAddr::from([192, 0, 2, k as u8 + 1]), 9000 + k as u16)).collect::<Vec<_>>()); }
    if c["local"] != "-" { info = info.set_local_addr(c["local"].parse::<IpAddr>().unwrap()); }
    let resolver = if c["resolver"] == "custom" { Resolver::custom(Custom(script.clone())) } else { Resolver::default() };
    let svc = Connector::new(resolver).service();
    let w = waker(); let mut cx = Context::from_waker(&w);
    let mut fut = Box::pin(svc.call(info));
    let mut res = None;
    for _ in 0..16 { if let Poll::Ready(r) = fut.as_mut().poll(&mut cx) { res = Some(r); break; } }
    let r = match res {
        None => "res=pending".to_string(),
        Some(Ok(conn)) => format!("res=ok:{}", conn.io_ref().0),
        Some(Err(e)) => match e {
            ConnectError::Resolver(_) => "res=err:Resolver".into(), ConnectError::NoRecords => "res=err:NoRecords".into(),
            ConnectError::InvalidInput => "res=err:InvalidInput".into(), ConnectError::Unresolved => "res=err:Unresolved".into(),
            ConnectError::Io(e) => format!("res=err:Io:{}", e.raw_os_error().unwrap_or(-1)),
            #[allow(unreachable_patterns)] _ => "res=err:other".into(),
        },
    };
    #[allow(static_mut_refs)]
    let d: Vec<String> = unsafe { actix_rt::net::ENV.dialled.iter().map(|(a, l)| format!("{}:{}@{}", a.ip(), a.port(), l.map(|x| x.ip().to_string()).unwrap_or("-".into()))).collect() };
    format!("{} dials=[{}] lookups=[{}]", r, d.join(","), script.borrow().log.join(","))
}

fn run_tls(line: &str) -> String {
    let (head, ans) = line.split_once('|').unwrap();
    let c = kv(head);
    let mut pend = 0u8; let mut ok = true;
    for a in ans.split_whitespace() { match a { "p" => pend += 1, "ok" => ok = true, "err" => ok = false, _ => panic!("answer") } }
    let conn = Connection::new(H { host: c["host"].replace('+', " "), port: None }, actix_rt::net::TcpStream(4242));
    let w = waker(); let mut cx = Context::from_waker(&w);
    if c["flavour"] == "openssl" {
        use actix_tls::connect::openssl::{reexports::{SslConnector, SslMethod}, TlsConnector};
        #[allow(static_mut_refs)] unsafe { tokio_openssl::HS_NEXT = 0; tokio_openssl::NAMES.clear(); tokio_openssl::HS[0] = tokio_openssl::Hs { pend, ok }; }
        let svc = TlsConnector::service(SslConnector::builder(SslMethod::tls()).unwrap().build());
        let mut fut = Box::pin(svc.call(conn));
        let mut res = None;
        for _ in 0..16 { if let Poll::Ready(r) = fut.as_mut().poll(&mut cx) { res = Some(r); break; } }
        let r = match res { None => "res=pending".to_string(), Some(Ok(c)) => format!("res=ok:{}:{}", c.io_ref().get_ref().0, c.request().host), Some(Err(_)) => "res=err".into() };
        #[allow(static_mut_refs)] let n: Vec<String> = unsafe { tokio_openssl::NAMES.iter().map(|x| x.clone().unwrap_or("-".into())).collect() };
        format!("{} names=[{}]", r, n.join(","))
    } else {
        use actix_tls::connect::rustls_0_23::{reexports::ClientConfig, TlsConnector};
        #[allow(static_mut_refs)] unsafe { tokio_rustls::HS_NEXT = 0; tokio_rustls::NAMES.clear(); tokio_rustls::HS[0] = tokio_rustls::Hs { pend, ok }; }
        let svc = TlsConnector::service(std::sync::Arc::new(ClientConfig));
        let mut fut = Box::pin(svc.call(conn));
        let mut res = None;
        for _ in 0..16 { if let Poll::Ready(r) = fut.as_mut().poll(&mut cx) { res = Some(r); break; } }
        let r = match res { None => "res=pending".to_string(), Some(Ok(c)) => format!("res=ok:{}:{}", c.io_ref().get_ref().0 .0, c.request().host), Some(Err(_)) => "res=err".into() };
        // the model records `format!("{:?}", ServerName)`: keep the quoted name only
        #[allow(static_mut_refs)] let n: Vec<String> = unsafe { tokio_rustls::NAMES.iter().map(|x| x.split('"').nth(1).unwrap_or(x).to_string()).collect() };
        format!("{} names=[{}]", r, n.join(","))
    }
}

fn main() {
    for line in std::io::stdin().lock().lines() {
        let line = line.unwrap();
        let h = std::thread::spawn(move || if line.starts_with("tls ") { run_tls(&line) } else { run_conn(&line) });
        println!("{}", h.join().unwrap_or_else(|_| "PANIC".into()));
    }
}
