//! Workspace that compiles the real actix-tls of /repo (features accept, connect, rustls-0_23) against the model crates.
