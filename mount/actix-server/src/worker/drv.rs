//! Child module of the mounted `worker` module: constructs worker handles the way `ServerWorker::start` does
//! (same `handle_pair`, `Counter::new`, `WorkerCounter::new`) without starting a thread.
use super::*;

pub(crate) struct WorkerEnd {
    pub conn_rx: UnboundedReceiver<Conn>,
    pub stop_rx: UnboundedReceiver<Stop>,
    pub wc: WorkerCounter,
    pub counter: Counter,
}

pub(crate) fn mk_handles(idx: usize, limit: usize, waker_queue: WakerQueue) -> (WorkerHandleAccept, WorkerHandleServer, WorkerEnd) {
    let (tx1, conn_rx) = unbounded_channel();
    let (tx2, stop_rx) = unbounded_channel();
    let counter = Counter::new(limit);
    let (ha, hs) = handle_pair(idx, tx1, tx2, counter.clone());
    let wc = WorkerCounter::new(idx, waker_queue, counter.clone());
    (ha, hs, WorkerEnd { conn_rx, stop_rx, wc, counter })
}

pub(crate) fn total(c: &Counter) -> usize { c.counter.load(Ordering::SeqCst) }

pub(crate) fn run(_script: &str) -> String { String::from("unimplemented") }
