//! Child module of the mounted `worker` module.
//! (1) constructs worker handles the way `ServerWorker::start` does (same `handle_pair`, `Counter::new`,
//!     `WorkerCounter::new`) without starting a thread - used by the accept-loop driver;
//! (2) runs the real `<ServerWorker as Future>::poll` natively with scripted services and factories.
//!
//! worker schedule line:  S=<services> timeout=<ms> | <op>*
//!   ops: conn:<token> (= send + inc, the order is the accept thread's business)  send:<token> (enqueue only)  inc (count only)
//!        close (the accept thread is gone: every connection sender is dropped)  finish:<k>  stop:<0|1>  tick:<ms>  poll:<a>,<a>,..   (a = answers consumed, in order, by
//!        poll_ready (o = Ready(Ok), p = Pending, e = Ready(Err)) and by restart futures (c = created, w = Pending))
//! trace: events separated by spaces; after every poll "P=<pending|ready>,total=<n>,q=<queued>,tx=<none|true|false>"
use super::*;
use actix_service::Service;
use actix_utils::future::{ready, Ready};
use std::{cell::RefCell, collections::VecDeque, rc::Rc};

pub(crate) struct WorkerEnd {
    pub conn_rx: UnboundedReceiver<Conn>,
    pub stop_rx: UnboundedReceiver<Stop>,
    pub wc: WorkerCounter,
    pub counter: Counter,
}

pub(crate) fn mk_handles(idx: usize, limit: usize, waker_queue: WakerQueue) -> (WorkerHandleAccept, WorkerHandleServer, WorkerEnd) {
    let (tx1, conn_rx) = unbounded_channel();
    let (tx2, stop_rx) = unbounded_channel();
    let counter = Counter::new(limit);
    let (ha, hs) = handle_pair(idx, tx1, tx2, counter.clone());
    let wc = WorkerCounter::new(idx, waker_queue, counter.clone());
    (ha, hs, WorkerEnd { conn_rx, stop_rx, wc, counter })
}

pub(crate) fn total(c: &Counter) -> usize { c.counter.load(Ordering::SeqCst) }
pub(crate) fn stop_parts(s: Stop) -> (bool, oneshot::Sender<bool>) { (s.graceful, s.tx) }

#[derive(Default)]
struct Shared { answers: VecDeque<char>, log: Vec<String>, guards: Vec<(usize, WorkerCounterGuard)>, gens: Vec<usize> }
type Sh = Rc<RefCell<Shared>>;

struct ScriptSvc { id: usize, gen: usize, sh: Sh }
impl Service<(WorkerCounterGuard, MioStream)> for ScriptSvc {
    type Response = (); type Error = (); type Future = Ready<Result<(), ()>>;
    fn poll_ready(&self, _: &mut Context<'_>) -> Poll<Result<(), ()>> {
        let mut sh = self.sh.borrow_mut();
        let a = sh.answers.pop_front().unwrap_or('o');
        sh.log.push(format!("ready:{}:{}:{}", self.id, self.gen, a));
        match a { 'p' => Poll::Pending, 'e' => Poll::Ready(Err(())), _ => Poll::Ready(Ok(())) }
    }
    fn call(&self, (guard, io): (WorkerCounterGuard, MioStream)) -> Self::Future {
        let sid = match io { MioStream::Tcp(s) => s.0, MioStream::Uds(s) => s.0 };
        let mut sh = self.sh.borrow_mut();
        sh.log.push(format!("call:{}:{}:{}", self.id, self.gen, sid));
        sh.guards.push((sid, guard));
        ready(Ok(()))
    }
}
struct ScriptFactory { id: usize, sh: Sh }
unsafe impl Send for ScriptFactory {}
impl InternalServiceFactory for ScriptFactory {
    fn name(&self, _: usize) -> &str { "scripted" }
    fn clone_factory(&self) -> Box<dyn InternalServiceFactory> { Box::new(ScriptFactory { id: self.id, sh: self.sh.clone() }) }
    fn create(&self) -> LocalBoxFuture<'static, Result<(usize, BoxedServerService), ()>> {
        let (id, sh) = (self.id, self.sh.clone());
        let gen = { let mut s = sh.borrow_mut(); s.gens[id] += 1; let g = s.gens[id]; s.log.push(format!("create:{}:{}", id, g)); g };
        Box::pin(std::future::poll_fn(move |_| {
            let a = sh.borrow_mut().answers.pop_front().unwrap_or('c');
            if a == 'w' { sh.borrow_mut().log.push(format!("restart-pending:{}", id)); return Poll::Pending; }
            let svc: BoxedServerService = Box::new(ScriptSvc { id, gen, sh: sh.clone() });
            Poll::Ready(Ok((id, svc)))
        }))
    }
}

fn noop_waker() -> std::task::Waker {
    use std::task::{RawWaker, RawWakerVTable, Waker};
    fn cl(_: *const ()) -> RawWaker { RawWaker::new(std::ptr::null(), &VT) }
    fn no(_: *const ()) {}
    static VT: RawWakerVTable = RawWakerVTable::new(cl, no, no, no);
    unsafe { Waker::from_raw(RawWaker::new(std::ptr::null(), &VT)) }
}

pub(crate) fn run(line: &str) -> String {
    let (head, sched) = line.split_once('|').expect("schedule needs `|`");
    let mut ns = 1usize; let mut timeout = 30000u64;
    for kv in head.split_whitespace() {
        let (k, v) = kv.split_once('=').unwrap();
        match k { "S" => ns = v.parse().unwrap(), "timeout" => timeout = v.parse().unwrap(), _ => {} }
    }
    actix_rt::time::set_now_ms(5000);
    let sh: Sh = Rc::new(RefCell::new(Shared { gens: vec![0; ns], ..Default::default() }));
    let poll = mio::Poll::new().unwrap();
    let wq = WakerQueue::new(poll.registry()).unwrap();
    let (conn_tx, conn_rx) = unbounded_channel::<Conn>(); let mut conn_tx = Some(conn_tx);
    let (stop_tx, stop_rx) = unbounded_channel::<Stop>();
    let counter = Counter::new(1 << 20);
    let services: Vec<(usize, usize, BoxedServerService)> = (0..ns).map(|i| (i, i, Box::new(ScriptSvc { id: i, gen: 0, sh: sh.clone() }) as BoxedServerService)).collect();
    let factories: Vec<Box<dyn InternalServiceFactory>> = (0..ns).map(|i| Box::new(ScriptFactory { id: i, sh: sh.clone() }) as Box<dyn InternalServiceFactory>).collect();
    let mut worker = ServerWorker {
        conn_rx, stop_rx,
        counter: WorkerCounter::new(0, wq.clone(), counter.clone()),
        services: wrap_worker_services(services).into_boxed_slice(),
        factories: factories.into_boxed_slice(),
        state: WorkerState::default(),
        shutdown_timeout: Duration::from_millis(timeout),
    };
    let waker = noop_waker(); let mut cx = Context::from_waker(&waker);
    let mut next_sid = 100usize; let mut stop_rxs: Vec<oneshot::Receiver<bool>> = Vec::new();
    let mut done = false;
    let r = std::panic::catch_unwind(std::panic::AssertUnwindSafe(|| {
        for op in sched.split_whitespace() {
            if let Some(t) = op.strip_prefix("conn:") {
                if let Some(tx) = conn_tx.as_ref() { let _ = tx.send(Conn { io: MioStream::Tcp(mio::net::TcpStream(next_sid)), token: t.parse().unwrap() }); }
                counter.inc(); next_sid += 1;
            } else if let Some(t) = op.strip_prefix("send:") {
                if let Some(tx) = conn_tx.as_ref() { let _ = tx.send(Conn { io: MioStream::Tcp(mio::net::TcpStream(next_sid)), token: t.parse().unwrap() }); }
                next_sid += 1;
            } else if op == "inc" { counter.inc();
            } else if op == "close" { conn_tx = None;
            } else if let Some(k) = op.strip_prefix("finish:") {
                let (sid, g) = sh.borrow_mut().guards.remove(k.parse().unwrap()); drop(g);
                sh.borrow_mut().log.push(format!("finished:{}", sid));
            } else if let Some(g) = op.strip_prefix("stop:") {
                let (tx, rx) = oneshot::channel(); let _ = stop_tx.send(Stop { graceful: g == "1", tx }); stop_rxs.push(rx);
            } else if let Some(ms) = op.strip_prefix("tick:") {
                actix_rt::time::set_now_ms(actix_rt::time::now_ms() + ms.parse::<u64>().unwrap());
            } else if let Some(ans) = op.strip_prefix("poll:") {
                if done { sh.borrow_mut().log.push("P=after-ready".into()); continue; }
                sh.borrow_mut().answers = ans.split(',').filter(|s| !s.is_empty()).map(|s| s.chars().next().unwrap()).collect();
                let r = Pin::new(&mut worker).poll(&mut cx);
                if r.is_ready() { done = true; }
                let mut txs = String::from("none");
                for rx in stop_rxs.iter_mut() {
                    if let Poll::Ready(v) = Pin::new(rx).poll(&mut cx) { txs = match v { Ok(b) => b.to_string(), Err(_) => "dropped".into() }; }
                }
                let left = sh.borrow().answers.len();
                sh.borrow_mut().log.push(format!("P={},total={},q={},tx={},unused={}", if r.is_ready() { "ready" } else { "pending" }, worker.counter.total(), worker.conn_rx.len(), txs, left));
            }
        }
    }));
    let mut out = sh.borrow().log.join(" ");
    if r.is_err() { out += " PANIC"; }
    std::mem::forget(worker);
    out
}
