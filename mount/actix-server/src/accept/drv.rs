//! Child module of the mounted `accept` module: runs the real `Accept::poll_with` natively against the Rust model
//! crates, with a scripted environment inside `mio::Poll::poll` (POLL_HOOK).
//!
//! schedule line:  W=<n> L=<n> limit=<n> uds=<0|1> | <env op>* poll[<ev>,..] <env op>* poll[..] ...
//! env ops: connect<l>  aerr<l>:<Refused|Aborted|Reset|Other>  pickup<w>  finish<w>[:k]  die<w>  replace<w>
//!          pause resume stop tick:<ms>
//! trace: one snapshot per entry into Poll::poll, separated by " ; ", then END | RETURNED | PANIC <msg>
use super::*;
use crate::{server::ServerCommand, socket::MioStream, worker::{drv as wdrv, WorkerCounterGuard}};
use mio::net::{AcceptResult, TcpListener as MTcp, UnixListener as MUds};
use std::{cell::RefCell, panic::{self, AssertUnwindSafe}, rc::Rc};
use tokio::sync::mpsc::{unbounded_channel, UnboundedReceiver};

struct EndOfSchedule;

struct Wk { idx: usize, gen: usize, end: wdrv::WorkerEnd, inservice: Vec<(usize, WorkerCounterGuard)>, owed: Vec<(usize, WorkerCounterGuard)>, alive: bool, rx_dropped: bool }

struct St {
    turns: Vec<(Vec<String>, Vec<String>)>,
    turn: usize,
    workers: Vec<Wk>,          // includes dead generations
    wq: WakerQueue,
    cmd_rx: UnboundedReceiver<ServerCommand>,
    cmds: Vec<String>,
    limit: usize,
    accept: *const Accept,
    sockets: *const [ServerSocketInfo],
    out: Vec<String>,
    finished: Vec<usize>,
    lost: Vec<usize>,
}

fn sid(c: &Conn) -> usize { match &c.io { MioStream::Tcp(s) => s.0, MioStream::Uds(s) => s.0 } }
fn lmodel(l: &MioListener) -> &mio::net::ListenerModel { match l { MioListener::Tcp(t) => &t.0, MioListener::Uds(u) => &u.0 } }

impl St {
    fn live(&mut self, idx: usize) -> &mut Wk { self.workers.iter_mut().filter(|w| w.idx == idx).last().unwrap() }
    fn drain_cmds(&mut self) {
        let w = futures_util_noop();
        let mut cx = std::task::Context::from_waker(&w);
        while let std::task::Poll::Ready(Some(c)) = self.cmd_rx.poll_recv(&mut cx) {
            match c { ServerCommand::WorkerFaulted(i) => self.cmds.push(format!("F{}", i)), _ => self.cmds.push("other".into()) }
        }
    }
    fn snapshot(&mut self) {
        self.drain_cmds();
        let a = unsafe { &*self.accept };
        let socks = unsafe { &*self.sockets };
        let mut s = format!("T{} paused={} tmo={} next={} bits={:x} wake={} wq={} H=[{}]", self.turn, a.paused as u8,
            a.timeout.map(|d| d.as_millis().to_string()).unwrap_or("none".into()), a.next,
            crate::availability::raw(&a.avail)[0],
            a.waker_queue.0.pending.get(), a.waker_queue.guard().len(),
            a.handles.iter().map(|h| h.idx().to_string()).collect::<Vec<_>>().join(","));
        for w in self.workers.iter_mut() {
            let mut q = Vec::new();
            if !w.rx_dropped {
                // peek the queue by draining and re-sending is not possible (no sender here): the model receiver exposes len() only,
                // so queued stream ids are tracked by draining into a side buffer
                q = w.end.conn_rx.peek_ids(|c| sid(c));
            }
            s += &format!(" W{}g{}:a={},q={:?},in={:?},owed={:?},cnt={}", w.idx, w.gen, w.alive as u8, q,
                w.inservice.iter().map(|x| x.0).collect::<Vec<_>>(), w.owed.iter().map(|x| x.0).collect::<Vec<_>>(), wdrv::total(&w.end.counter));
        }
        for (l, info) in socks.iter().enumerate() {
            let m = lmodel(&info.lst);
            let link = match &info.lst { MioListener::Uds(u) => u.linked() as i8, _ => -1 };
            s += &format!(" L{}:reg={},bl={},dl={},link={},tok={},acc={}", l, m.registered as u8, m.script.borrow().len(),
                info.timeout.map(|d| d.0.to_string()).unwrap_or("none".into()), link, info.token, m.next_id.get());
        }
        s += &format!(" cmd=[{}] clock={} fin={:?} lost={:?}", self.cmds.join(","), actix_rt::time::now_ms(), self.finished, self.lost);
        self.out.push(s);
    }
    fn env(&mut self, op: &str) {
        let socks = unsafe { &*self.sockets };
        if let Some(r) = op.strip_prefix("connect") { lmodel(&socks[r.parse::<usize>().unwrap()].lst).script.borrow_mut().push_back(AcceptResult::Stream); }
        else if let Some(r) = op.strip_prefix("aerr") {
            let (l, k) = r.split_once(':').unwrap();
            let k = match k { "Refused" => AcceptResult::Refused, "Aborted" => AcceptResult::Aborted, "Reset" => AcceptResult::Reset, _ => AcceptResult::Other };
            lmodel(&socks[l.parse::<usize>().unwrap()].lst).script.borrow_mut().push_back(k);
        }
        else if op == "pause" { self.wq.wake(WakerInterest::Pause) }
        else if op == "resume" { self.wq.wake(WakerInterest::Resume) }
        else if op == "stop" { self.wq.wake(WakerInterest::Stop) }
        else if let Some(r) = op.strip_prefix("tick:") { actix_rt::time::set_now_ms(actix_rt::time::now_ms() + r.parse::<u64>().unwrap()) }
        else if let Some(r) = op.strip_prefix("pickup") { self.pickup(r.parse().unwrap()) }
        else if let Some(r) = op.strip_prefix("finish") {
            let (w, k) = match r.split_once(':') { Some((w, k)) => (w.parse().unwrap(), Some(k.parse::<usize>().unwrap())), None => (r.parse().unwrap(), None) };
            self.finish(w, k)
        }
        else if let Some(r) = op.strip_prefix("die") {
            let w = self.live(r.parse().unwrap());
            w.alive = false;
            let lost = w.end.conn_rx.peek_ids(|c| sid(c));
            w.end.conn_rx.close_and_clear(); w.rx_dropped = true;
            w.owed = std::mem::take(&mut w.inservice);
            self.lost.extend(lost);
        }
        else if let Some(r) = op.strip_prefix("replace") {
            let idx: usize = r.parse().unwrap();
            self.drain_cmds();
            if let Some(p) = self.cmds.iter().position(|c| *c == format!("F{}", idx)) { self.cmds.remove(p); }
            let gen = self.live(idx).gen + 1;
            let (ha, _hs, end) = wdrv::mk_handles(idx, self.limit, self.wq.clone());
            self.workers.push(Wk { idx, gen, end, inservice: vec![], owed: vec![], alive: true, rx_dropped: false });
            self.wq.wake(WakerInterest::Worker(ha));
        }
        else { panic!("unknown env op {}", op) }
    }
    fn pickup(&mut self, idx: usize) {
        let w = self.live(idx);
        let wk = futures_util_noop(); let mut cx = std::task::Context::from_waker(&wk);
        if let std::task::Poll::Ready(Some(c)) = w.end.conn_rx.poll_recv(&mut cx) {
            let g = w.end.wc.guard(); w.inservice.push((sid(&c), g));
        } else { panic!("pickup on empty queue") }
    }
    fn finish(&mut self, idx: usize, k: Option<usize>) {
        let alive = self.live(idx).alive;
        if !alive { let (s, g) = self.live(idx).owed.remove(0); drop(g); self.finished.push(s); return; }
        if self.live(idx).inservice.is_empty() { self.pickup(idx); }
        let (s, g) = self.live(idx).inservice.remove(k.unwrap_or(0)); drop(g); self.finished.push(s);
    }
}

fn futures_util_noop() -> std::task::Waker {
    use std::task::{RawWaker, RawWakerVTable, Waker};
    fn cl(_: *const ()) -> RawWaker { RawWaker::new(std::ptr::null(), &VT) }
    fn no(_: *const ()) {}
    static VT: RawWakerVTable = RawWakerVTable::new(cl, no, no, no);
    unsafe { Waker::from_raw(RawWaker::new(std::ptr::null(), &VT)) }
}

pub(crate) fn run(line: &str) -> String {
    let (head, sched) = line.split_once('|').expect("schedule needs `|`");
    let mut w = 1; let mut l = 1; let mut limit = 1usize; let mut uds = false;
    for kv in head.split_whitespace() {
        let (k, v) = kv.split_once('=').unwrap();
        match k { "W" => w = v.parse().unwrap(), "L" => l = v.parse().unwrap(), "limit" => limit = v.parse().unwrap(), "uds" => uds = v == "1", _ => {} }
    }
    let mut turns = Vec::new(); let mut cur = Vec::new();
    for tok in sched.split_whitespace() {
        if let Some(r) = tok.strip_prefix("poll[") {
            let evs: Vec<String> = r.trim_end_matches(']').split(',').filter(|s| !s.is_empty()).map(|s| s.to_string()).collect();
            turns.push((std::mem::take(&mut cur), evs));
        } else { cur.push(tok.to_string()); }
    }
    actix_rt::time::set_now_ms(1000);
    let poll = Poll::new().unwrap();
    let wq = WakerQueue::new(poll.registry()).unwrap();
    let (cmd_tx, cmd_rx) = unbounded_channel();
    let mut handles = Vec::new(); let mut workers = Vec::new();
    for idx in 0..w {
        let (ha, _hs, end) = wdrv::mk_handles(idx, limit, wq.clone());
        handles.push(ha); workers.push(Wk { idx, gen: 0, end, inservice: vec![], owed: vec![], alive: true, rx_dropped: false });
    }
    let socks: Vec<(usize, MioListener)> = (0..l).map(|i| {
        let lst = if uds && i == l - 1 { MioListener::Uds(MUds::model(1000 * (i + 1), Some(format!("/verif-model-sock{}", i).into()))) }
                  else { MioListener::Tcp(MTcp::model(1000 * (i + 1))) };
        (i, lst)
    }).collect();
    let (mut accept, mut sockets) = Accept::new_with_sockets(poll, wq.clone(), socks, handles, ServerHandle::new(cmd_tx)).unwrap();
    let st = Rc::new(RefCell::new(St { turns, turn: 0, workers, wq, cmd_rx, cmds: vec![], limit, accept: &accept, sockets: &*sockets, out: vec![], finished: vec![], lost: vec![] }));
    let st2 = st.clone();
    mio::POLL_HOOK.with(|h| *h.borrow_mut() = Some(Box::new(move |events: &mut mio::Events, _tmo| {
        let mut st = st2.borrow_mut();
        st.snapshot();
        if st.turn >= st.turns.len() { drop(st); panic::panic_any(EndOfSchedule); }
        let (ops, evs) = st.turns[st.turn].clone(); st.turn += 1;
        for op in &ops { st.env(op); }
        let a = unsafe { &*st.accept };
        for e in &evs {
            if e == "waker" { a.waker_queue.0.pending.set(0); events.push(WAKER_TOKEN); }
            else { events.push(MioToken(e.trim_start_matches("lst").parse().unwrap())); }
        }
        Ok(())
    })));
    let r = panic::catch_unwind(AssertUnwindSafe(|| accept.poll_with(&mut sockets)));
    mio::POLL_HOOK.with(|h| *h.borrow_mut() = None);
    let mut out = std::mem::take(&mut st.borrow_mut().out);
    match r {
        Ok(()) => { st.borrow_mut().snapshot_after_return(&mut out); out.push("RETURNED".into()) }
        Err(e) => if e.is::<EndOfSchedule>() { out.push("END".into()) } else {
            let msg = e.downcast_ref::<String>().cloned().or_else(|| e.downcast_ref::<&str>().map(|s| s.to_string())).unwrap_or_default();
            out.push(format!("PANIC {}", msg.replace(';', ",")))
        },
    }
    // keep worker ends alive until here so that channel state is stable during the run
    std::mem::forget(st);
    out.join(" ; ")
}

impl St { fn snapshot_after_return(&mut self, _out: &mut Vec<String>) {} }
