//! Mount crate: the module tree of actix-server re-created from the files under /repo (byte for byte, via #[path]),
//! compiled against the environment model crates in /verif/models. `test_server.rs` (real sockets + threads) is the
//! only module left out.
#![allow(dead_code, unused_imports, unused_variables, clippy::all)]
mod accept {
    include!("/repo/actix-server/src/accept.rs");
    #[cfg(feature = "drv")] pub(crate) mod drv;
}
mod availability {
    include!("/repo/actix-server/src/availability.rs");
    /// raw words, for state snapshots (the accessor functions themselves are under test)
    #[cfg(feature = "drv")] pub(crate) fn raw(a: &Availability) -> [u128; 4] { a.0 }
    /// native replay of an engine-S counterexample on the real module
    #[cfg(feature = "drv")]
    pub(crate) fn drv(line: &str) -> String {
        let v: Vec<u128> = line.split_whitespace().map(|x| x.parse().unwrap()).collect();
        let r = std::panic::catch_unwind(|| {
            let mut a = Availability([v[0], v[1], v[2], v[3]]);
            a.set_available(v[4] as usize, v[6] == 1);
            format!("{} {} {} {} {} {}", a.get_available(v[5] as usize) as u8, a.available() as u8, a.0[0], a.0[1], a.0[2], a.0[3])
        });
        r.unwrap_or_else(|_| "PANIC".into())
    }
}
#[path = "/repo/actix-server/src/builder.rs"] mod builder;
#[path = "/repo/actix-server/src/handle.rs"] mod handle;
#[path = "/repo/actix-server/src/join_all.rs"] mod join_all;
mod server {
    include!("/repo/actix-server/src/server.rs");
    #[cfg(feature = "drv")] pub(crate) mod drv;
}
#[path = "/repo/actix-server/src/service.rs"] mod service;
#[path = "/repo/actix-server/src/signals.rs"] mod signals;
#[path = "/repo/actix-server/src/socket.rs"] mod socket;
#[path = "/repo/actix-server/src/waker_queue.rs"] mod waker_queue;
mod worker {
    include!("/repo/actix-server/src/worker.rs");
    #[cfg(feature = "drv")] pub(crate) mod drv;
}

pub use self::socket::FromStream;
pub use self::{
    builder::{MpTcp, ServerBuilder},
    handle::ServerHandle,
    server::Server,
    service::ServerServiceFactory,
};

/// Native action drivers (child modules of the mounted `accept` / `worker` modules, so they see private items).
#[cfg(feature = "drv")] pub fn drv_accept(script: &str) -> String { accept::drv::run(script) }
#[cfg(feature = "drv")] pub fn drv_worker(script: &str) -> String { worker::drv::run(script) }
#[cfg(feature = "drv")] pub fn drv_avail(line: &str) -> String { availability::drv(line) }
#[cfg(feature = "drv")] pub fn drv_server(line: &str) -> String { server::drv::run(line) }
