//! Mount crate: the module tree of actix-server re-created from the files under /repo (byte for byte, via #[path]),
//! compiled against the environment model crates in /verif/models. `test_server.rs` (real sockets + threads) is the
//! only module left out.
#![allow(dead_code, unused_imports, unused_variables, clippy::all)]
mod accept {
    include!("/repo/actix-server/src/accept.rs");
    #[cfg(feature = "drv")] pub(crate) mod drv;
}
#[path = "/repo/actix-server/src/availability.rs"] mod availability;
#[path = "/repo/actix-server/src/builder.rs"] mod builder;
#[path = "/repo/actix-server/src/handle.rs"] mod handle;
#[path = "/repo/actix-server/src/join_all.rs"] mod join_all;
#[path = "/repo/actix-server/src/server.rs"] mod server;
#[path = "/repo/actix-server/src/service.rs"] mod service;
#[path = "/repo/actix-server/src/signals.rs"] mod signals;
#[path = "/repo/actix-server/src/socket.rs"] mod socket;
#[path = "/repo/actix-server/src/waker_queue.rs"] mod waker_queue;
mod worker {
    include!("/repo/actix-server/src/worker.rs");
    #[cfg(feature = "drv")] pub(crate) mod drv;
}

pub use self::socket::FromStream;
pub use self::{
    builder::{MpTcp, ServerBuilder},
    handle::ServerHandle,
    server::Server,
    service::ServerServiceFactory,
};

/// Native action drivers (child modules of the mounted `accept` / `worker` modules, so they see private items).
#[cfg(feature = "drv")] pub fn drv_accept(script: &str) -> String { accept::drv::run(script) }
#[cfg(feature = "drv")] pub fn drv_worker(script: &str) -> String { worker::drv::run(script) }
