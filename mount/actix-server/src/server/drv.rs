//! Native driver for the server side of C06 (child module of the mounted `server` module): a real `ServerInner` built the
//! way `run_sync` leaves it (real WakerQueue, real worker stop channels via `ServerWorker`'s `handle_pair`), the real
//! `ServerEventMultiplexer`, and the body of `ServerInner::run` re-stated as `next().await` / `handle_cmd().await` /
//! `if stopping break` (run_sync itself binds sockets and starts threads). The accept thread is a real thread that ends
//! when the Stop interest appears on the waker queue (or after 1.5 s: then the join is reported as BLOCKED).
//!
//! line:  cfg=<plain|exit|signals|signals-nosystem> W=<n> | <op>*
//!   ops: stop:g stop:f pause resume sig:<int|term|quit> w<i>:<true|drop> tick:<ms> poll pollstop:<k>
//! trace: one snapshot per op:
//!   "wq=<P><R><S> w=[<per worker: g|f per pending Stop message, '-' if none>] srv=<0|1> stops=[<0|1 per stop future>] sys=<n> blocked=<0|1>"
use super::*;
use crate::worker::drv as wdrv;
use std::sync::atomic::{AtomicBool, Ordering as AO};
use std::sync::Arc;

fn noop_waker() -> std::task::Waker {
    use std::task::{RawWaker, RawWakerVTable, Waker};
    fn cl(_: *const ()) -> RawWaker { RawWaker::new(std::ptr::null(), &VT) }
    fn no(_: *const ()) {}
    static VT: RawWakerVTable = RawWakerVTable::new(cl, no, no, no);
    unsafe { Waker::from_raw(RawWaker::new(std::ptr::null(), &VT)) }
}

pub(crate) fn run(line: &str) -> String {
    let (head, sched) = line.split_once('|').unwrap();
    let mut cfg = "plain"; let mut nw = 1usize;
    for kv in head.split_whitespace() { if let Some((k, v)) = kv.split_once('=') { match k { "cfg" => cfg = v, "W" => nw = v.parse().unwrap(), _ => {} } } }
    actix_rt::time::set_now_ms(1000);
    actix_rt::set_system_present(cfg != "signals-nosystem");
    actix_rt::signal::unix::clear_pending();
    let poll = mio::Poll::new().unwrap();
    let waker_queue = WakerQueue::new(poll.registry()).unwrap();
    let mut ends = Vec::new(); let mut handles = Vec::new();
    for i in 0..nw { let (_ha, hs, end) = wdrv::mk_handles(i, 4, waker_queue.clone()); handles.push(hs); ends.push((end, Vec::<(bool, tokio::sync::oneshot::Sender<bool>)>::new(), _ha)); }
    let blocked = Arc::new(AtomicBool::new(false));
    let accept_handle = { let wq = waker_queue.clone(); let b = blocked.clone(); thread::spawn(move || {
        let t0 = std::time::Instant::now();
        loop {
            if wq.guard().iter().any(|i| matches!(i, WakerInterest::Stop)) { break; }
            if t0.elapsed() > std::time::Duration::from_millis(1500) { b.store(true, AO::SeqCst); break; }
            thread::sleep(std::time::Duration::from_millis(1));
        }
    }) };
    let (cmd_tx, cmd_rx) = tokio::sync::mpsc::unbounded_channel();
    let handle = ServerHandle::new(cmd_tx);
    let mut this = ServerInner { worker_handles: handles, accept_handle: Some(accept_handle), worker_config: ServerWorkerConfig::default(), services: Vec::new(),
                                 waker_queue: waker_queue.clone(), system_stop: cfg == "exit", stopping: false };
    let mut mux = ServerEventMultiplexer { cmd_rx, signal_fut: if cfg.starts_with("signals") { Some(Signals::new()) } else { None } };
    let mut server: Pin<Box<dyn Future<Output = io::Result<()>>>> = Box::pin(async move {
        while let Some(cmd) = mux.next().await { this.handle_cmd(cmd).await; if this.stopping { break; } }
        Ok(())
    });
    let mut srv_done = false;
    let mut stops: Vec<(Pin<Box<dyn Future<Output = ()>>>, bool)> = Vec::new();
    let w = noop_waker(); let mut cx = Context::from_waker(&w);
    let mut out = Vec::new();
    for op in sched.split_whitespace() {
        match op {
            "stop:g" | "stop:f" => stops.push((Box::pin(handle.stop(op == "stop:g")), false)),
            "pause" => { std::mem::forget(Box::pin(handle.pause())); }
            "resume" => { std::mem::forget(Box::pin(handle.resume())); }
            "poll" => { if !srv_done { if let Poll::Ready(_) = server.as_mut().poll(&mut cx) { srv_done = true; } } }
            _ if op.starts_with("sig:") => actix_rt::signal::unix::set_pending(match &op[4..] { "int" => 2, "term" => 15, _ => 3 }),
            _ if op.starts_with("tick:") => actix_rt::time::set_now_ms(actix_rt::time::now_ms() + op[5..].parse::<u64>().unwrap()),
            _ if op.starts_with("pollstop:") => { let k: usize = op[9..].parse().unwrap(); if !stops[k].1 { if let Poll::Ready(()) = stops[k].0.as_mut().poll(&mut cx) { stops[k].1 = true; } } }
            _ if op.starts_with('w') => {
                let (i, how) = op[1..].split_once(':').unwrap(); let i: usize = i.parse().unwrap();
                while let Poll::Ready(Some(s)) = ends[i].0.stop_rx.poll_recv(&mut cx) { ends[i].1.push(wdrv::stop_parts(s)); }
                for (_, tx) in ends[i].1.drain(..) { if how == "true" { let _ = tx.send(true); } else { drop(tx); } }
            }
            _ => panic!("op {}", op),
        }
        for e in ends.iter_mut() { while let Poll::Ready(Some(s)) = e.0.stop_rx.poll_recv(&mut cx) { e.1.push(wdrv::stop_parts(s)); } }
        let (mut p, mut r, mut s) = (0, 0, 0);
        for i in waker_queue.guard().iter() { match i { WakerInterest::Pause => p += 1, WakerInterest::Resume => r += 1, WakerInterest::Stop => s += 1, _ => {} } }
        let ws: Vec<String> = ends.iter().map(|e| if e.1.is_empty() { "-".to_string() } else { e.1.iter().map(|(g, _)| if *g { 'g' } else { 'f' }).collect() }).collect();
        let st: Vec<&str> = stops.iter().map(|x| if x.1 { "1" } else { "0" }).collect();
        out.push(format!("wq={}{}{} w=[{}] srv={} stops=[{}] sys={} blocked={}", p, r, s, ws.join(","), srv_done as u8, st.join(","), actix_rt::system_stops(), blocked.load(AO::SeqCst) as u8));
    }
    out.join(" ; ")
}
