//! srvdrv accept|worker : one schedule per stdin line, one trace per stdout line (see drv/*.rs).
use std::{io::BufRead, sync::mpsc, time::Duration};
fn main() {
    let mode = std::env::args().nth(1).unwrap_or_else(|| "accept".into());
    std::panic::set_hook(Box::new(|_| {}));
    for line in std::io::stdin().lock().lines() {
        let line = line.unwrap();
        let (tx, rx) = mpsc::channel();
        let m = mode.clone();
        std::thread::spawn(move || {
            let out = if m == "server" { mount_actix_server::drv_server(&line) } else if m == "worker" { mount_actix_server::drv_worker(&line) } else if m == "avail" { mount_actix_server::drv_avail(&line) } else { mount_actix_server::drv_accept(&line) };
            let _ = tx.send(out);
        });
        match rx.recv_timeout(Duration::from_secs(5)) {
            Ok(out) => println!("{}", out),
            Err(_) => { println!("SPIN"); std::process::exit(3); }
        }
    }
}
