//! Native trace generator for local-channel (real crate, public API only).
//! stdin: one operation sequence per line; stdout: one trace line per sequence.
//! ops: send:<sender idx>:<u8>  clone:<idx>  dropS:<idx>  close:<idx>  poll  rsender  dropR
//! trace item: <result>|<waker id>=<wakes during this op>,...   (the k-th poll uses waker id k mod 3)
use futures_core::Stream;
use local_channel::mpsc;
use std::{cell::RefCell, io::BufRead, pin::Pin, task::{Context, Poll, RawWaker, RawWakerVTable, Waker}};

thread_local! { static WAKES: RefCell<Vec<u32>> = const { RefCell::new(Vec::new()) }; }

fn waker(id: usize) -> Waker {
    fn cl(p: *const ()) -> RawWaker { RawWaker::new(p, &VT) }
    fn wk(p: *const ()) { WAKES.with(|w| { let mut w = w.borrow_mut(); let i = p as usize; if w.len() <= i { w.resize(i + 1, 0); } w[i] += 1; }) }
    fn no(_: *const ()) {}
    static VT: RawWakerVTable = RawWakerVTable::new(cl, wk, wk, no);
    unsafe { Waker::from_raw(RawWaker::new(id as *const (), &VT)) }
}

fn main() {
    for line in std::io::stdin().lock().lines() {
        let line = line.unwrap();
        WAKES.with(|w| w.borrow_mut().clear());
        let (tx, rx) = mpsc::channel::<u8>();
        let mut senders = vec![tx];
        let mut rx = Some(rx);
        let mut out = Vec::new();
        let mut npoll = 0usize;
        for op in line.split_whitespace() {
            let before = WAKES.with(|w| w.borrow().clone());
            let parts: Vec<&str> = op.split(':').collect();
            let idx = |k: usize| parts.get(k).map(|s| s.parse::<usize>().unwrap()).unwrap_or(0);
            let r: String = match parts[0] {
                "send" => if idx(1) >= senders.len() { "skip".into() } else {
                    if senders[idx(1)].send(idx(2) as u8).is_ok() { "ok".into() } else { "err".into() } },
                "clone" => if idx(1) >= senders.len() { "skip".into() } else { let s = senders[idx(1)].clone(); senders.push(s); "-".into() },
                "rsender" => match &rx { Some(r) => { senders.push(r.sender()); "-".into() } None => "skip".into() },
                "dropS" => if idx(1) >= senders.len() { "skip".into() } else { drop(senders.remove(idx(1))); "-".into() },
                "close" => if idx(1) >= senders.len() { "skip".into() } else { senders[idx(1)].close(); "-".into() },
                "dropR" => { rx = None; "-".into() }
                "poll" => match &mut rx {
                    None => "skip".into(),
                    Some(r) => {
                        let w = waker(npoll % 3); npoll += 1;
                        let mut cx = Context::from_waker(&w);
                        match Pin::new(r).poll_next(&mut cx) { Poll::Pending => "pending".into(), Poll::Ready(None) => "none".into(), Poll::Ready(Some(v)) => format!("some{}", v) }
                    }
                },
                other => panic!("unknown op {other}"),
            };
            let after = WAKES.with(|w| w.borrow().clone());
            let mut d = Vec::new();
            for (i, a) in after.iter().enumerate() {
                let b = before.get(i).copied().unwrap_or(0);
                if *a != b { d.push(format!("{}={}", i, a - b)); }
            }
            out.push(format!("{}|{}", r, d.join(",")));
        }
        println!("{}", out.join(" "));
    }
}
