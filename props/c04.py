"""C04 - dispatch is round-robin over available workers only; per-index availability for all 512 indices.
(a) Availability::{set_available,get_available,available,offset}: fully symbolic [u128;4], idx, j, b - loop-free, so the
    solver decides it for every value of the type.  (b) round-robin windows in the accept-loop exploration."""
from props.srvchecks import *
from mirsym import Struct, Array, Ref, LCell, Cell, Panic
from explore import Acc, explore


def kernel_availability(rep, ctx, seed):
    F = ctx.F
    SET, GET, AV = F('::set_available'), F('::get_available'), F('::available', 'availability.rs')

    def body(ex, acc):
        words = [z3.BitVec('w%d' % i, 128) for i in range(4)]
        av = Struct('Availability', [Array(words)])
        idx, j = z3.BitVec('idx', 64), z3.BitVec('j', 64); b = z3.Bool('b')
        def spec_get(ws, k):
            word = z3.Extract(63, 0, z3.LShR(k, 7)); bit = z3.ZeroExt(64, k & 127)
            sel = z3.If(word == 0, ws[0], z3.If(word == 1, ws[1], z3.If(word == 2, ws[2], ws[3])))
            return z3.Extract(0, 0, z3.LShR(sel, bit)) == 1
        ex.solver.add(z3.ULT(j, 512))
        ex.hist = ['set_available(idx,b)', 'get_available(j)', 'available()']
        try:
            ex.run(SET, [Ref(LCell(Cell(av))), idx, b])
        except Panic as p:
            acc.violated(ex, 'C04/kernel_set_available_panics_only_beyond_512', z3.ULT(idx, 512), what='set_available panics for an index below 512: %s' % p)
            acc.wit['c04_kernel_panic_path'] += 1
            return
        acc.violated(ex, 'C04/kernel_set_available_rejects_index_512_and_above', z3.UGE(idx, 512), what='set_available accepts an index >= 512')
        got = ex.run(GET, [Ref(LCell(Cell(av))), j])
        want = z3.If(j == idx, b, spec_get(words, j))
        acc.violated(ex, 'C04/kernel_each_index_tracked_independently', got != want,
                     what='get_available(j) after set_available(idx,b) differs from (j==idx ? b : old value of j)')
        anyb = ex.run(AV, [Ref(LCell(Cell(av)))])
        neww = [c.v for c in av.f[0].v.e]
        acc.violated(ex, 'C04/kernel_available_iff_some_bit_set', anyb != z3.Or(*[w != 0 for w in neww]))
        acc.wit['c04_kernel_normal_path'] += 1
        acc.transitions += 3

    acc = explore(ctx.mk, body, nproc=1)
    acc.to_report(rep)
    for k, v in acc.viol.items():
        fkey = '%s: idx=%s j=%s' % (v['obligation'], v['model'].get('idx'), v['model'].get('j'))
        m = v['model']
        # replay natively through the mount crate's availability module
        from props import srvnative
        line = 'AVAIL %s %s %s %s %s %s %s' % tuple(m.get(x, 0) for x in ('w0', 'w1', 'w2', 'w3', 'idx', 'j', 'b'))
        path = core.write_replay('C04', fkey, {'kernel': v['obligation'], 'model': m})
        rep.violation(fkey, '%s -- %s; model %s' % (v['obligation'], v['what'], {x: m.get(x) for x in ('idx', 'j', 'b')}), replay=path,
                      reproduced=replay_kernel(m, v['obligation']))


def replay_kernel(m, obligation):
    """Native replay of an Availability counterexample: the repository's own availability.rs compiled natively (mount crate)."""
    from props import srvnative
    b = srvnative.build()
    to = lambda x: int(x) if not isinstance(x, str) else (1 if x == 'True' else 0 if x == 'False' else int(x))
    vals = [to(m.get(k, 0)) for k in ('w0', 'w1', 'w2', 'w3', 'idx', 'j')] + [1 if str(m.get('b', 'False')) == 'True' else 0]
    r = core.sh([b, 'avail'], input=' '.join(str(v) for v in vals) + '\n', timeout=60)
    out = r.stdout.strip()
    if not out: return False
    if out.startswith('PANIC'): return obligation == 'C04/kernel_set_available_panics_only_beyond_512' and vals[4] < 512
    got, anyb, words = out.split()[0] == '1', out.split()[1] == '1', [int(x) for x in out.split()[2:6]]
    w = vals[:4]; idx, j, bb = vals[4], vals[5], vals[6] == 1
    old = (w[j >> 7] >> (j & 127)) & 1 == 1
    want = bb if j == idx else old
    if obligation == 'C04/kernel_each_index_tracked_independently': return got != want
    if obligation == 'C04/kernel_available_iff_some_bit_set': return anyb != any(x != 0 for x in words)
    if obligation == 'C04/kernel_set_available_rejects_index_512_and_above': return idx >= 512
    return False


def run(rep, tier, seed):
    rep.need_witness('c04_windows_checked', 'c04_full_rotation_seen', 'c04_kernel_normal_path', 'c04_kernel_panic_path')
    acts = ('connect', 'finish')
    q = tier == 'quick'
    ck = (chk_c04,)
    runs = [('W2', dict(W=2, L=1, turns=10, env_per_turn=2, max_conns=5 if q else 6, actions=acts, track_c04=True, checks=ck)),
            ('W3', dict(W=3, L=1, turns=8, env_per_turn=3, max_conns=5 if q else 6, actions=acts, track_c04=True, checks=ck))]
    if not q:
        runs += [('W4-limit2', dict(W=4, L=1, limit=2, turns=8, env_per_turn=3, max_conns=6, actions=acts, track_c04=True, checks=ck)),
                 ('W2-L2', dict(W=2, L=2, turns=8, env_per_turn=2, max_conns=5, actions=acts, track_c04=True, checks=ck))]
    ctx = run_accept_property(rep, 'C04', runs, tier, seed)
    if ctx is not None: kernel_availability(rep, ctx, seed)


def replay(path):
    d = json.load(open(path))
    if 'kernel' in d:
        ok = replay_kernel(d['model'], d['kernel']); print('kernel', d['kernel'], 'model', d['model'], 'reproduced natively:', ok); return 1 if ok else 0
    return replay_file(path)
