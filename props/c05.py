"""C05 - pause, resume and accept-error back-off never strand a listener.  Engine S, real accept loop + real socket.rs;
the clock is a solver variable (virtual time), accept errors of every kind are injected by the environment."""
from props.srvchecks import *


def run(rep, tier, seed):
    rep.need_witness('c05_paused_iterations', 'c05_backoff_armed', 'c05_reregistered_after_backoff', 'c05_uds_registered')
    full = ('connect', 'finish', 'pause', 'resume', 'aerr:Other', 'tick')
    perconn = ('connect', 'finish', 'aerr:Refused', 'aerr:Aborted', 'aerr:Reset')
    ck = (chk_c05, chk_c03)
    q = tier == 'quick'
    runs = [('tcp-pause-backoff', dict(W=1, L=1, limit=2, turns=4 if q else 7, env_per_turn=2, max_conns=3, max_ticks=2, actions=full, checks=ck)),
            ('per-connection-errors', dict(W=1, L=1, limit=2, turns=4 if q else 6, env_per_turn=3, max_conns=4, actions=perconn, checks=ck)),
            ('uds', dict(W=1, L=1, uds=True, limit=2, turns=4 if q else 6, env_per_turn=2, max_conns=2, max_ticks=2,
                         actions=('connect', 'pause', 'resume', 'aerr:Other', 'tick'), checks=ck)),
            ('two-listeners-stop', dict(W=1, L=2, uds=True, limit=2, turns=3 if q else 5, env_per_turn=2, max_conns=2, max_ticks=1,
                                        actions=('connect', 'pause', 'resume', 'stop', 'aerr:Other', 'tick'), checks=ck))]
    if not q:
        runs.append(('two-workers', dict(W=2, L=1, limit=1, turns=5, env_per_turn=2, max_conns=3, max_ticks=2, actions=full, checks=ck)))
    run_accept_property(rep, 'C05', runs, tier, seed, also=('C03/waiting_connection',))


def replay(path): return replay_file(path)
