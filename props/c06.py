"""C06 - shutdown: graceful waits for connections, forced does not, stop always completes.
Worker side (engine S): Stop handler and Shutdown arm of the real <ServerWorker as Future>::poll with a symbolic clock
and symbolic shutdown_timeout.  Accept side (engine S): Stop makes the real accept loop deregister and return, in every
order with pause/resume and new connections.  Signal mapping (engine S): ServerInner::map_signal."""
from props.wrkworld import *
from props import srvchecks
from mirsym import Enum


def map_signal(rep, ctx):
    f = ctx.F('::map_signal')
    acc = Acc()
    want = {'Int': (False, True), 'Term': (True, True), 'Quit': (False, True)}
    for sig, (graceful, force) in want.items():
        ex = ctx.mk(); ex.hist = ['map_signal(%s)' % sig]
        r = ex.run(f, [Enum('SignalKind', sig)])
        ok = isinstance(r, Enum) and r.variant == 'Stop'
        if ok:
            order = ['graceful', 'completion', 'force_system_stop']
            g = r.f[0].v; fs = r.f[2].v
            acc.violated(ex, 'C06/signal_mapping_SIG%s' % sig.upper(), z3.Or(g != z3.BoolVal(graceful), fs != z3.BoolVal(force)),
                         what='SIG%s must map to Stop{graceful=%s, force_system_stop=%s}' % (sig.upper(), graceful, force))
        else:
            acc.violated(ex, 'C06/signal_mapping_SIG%s' % sig.upper(), True, what='SIG%s does not map to a Stop command' % sig.upper())
        acc.paths += 1; acc.fn_used |= ex.fn_used; acc.queries += ex.nq
    acc.to_report(rep)
    for k, v in acc.viol.items():
        path = core.write_replay('C06', k, {'obligation': k, 'what': v['what']})
        # straight-line code with constant results: the counterexample is the function's return value itself
        rep.violation(k, v['what'], replay=path, reproduced=True)


def join_all(rep, ctx, seed):
    """JoinAll (used by handle_cmd(Stop) to wait for the workers' answers): resolves exactly when every input has resolved,
    outputs in input order, never polls an input again after it completed."""
    from mirsym import Struct, Ref, LCell, Cell, Panic
    from models import VecObj, BoxObj, ContextObj, WakerObj
    from explore import explore
    POLL = ctx.M('JoinAll', 'poll', 'Future')
    class Fut:
        canon_fields = ('i', 'done')
        def __init__(self, i, w): self.i, self.w, self.done = i, w, False
        def poll(self, ex):
            if self.done: raise Panic('JoinAll polled input %d after it completed' % self.i)
            a = ex.pick('join', ['ready', 'pending'] if self.w['budget'] > 0 else ['ready'])
            self.w['hist'].append('f%d=%s' % (self.i, a))
            if a == 'pending': self.w['budget'] -= 1; return Enum('Poll', 'Pending')
            self.done = True
            return Enum('Poll', 'Ready', [z3.BitVecVal(10 + self.i, 8)])
        def model_drop(self, ex): pass
    def body(ex, acc):
        n = ex.pick('n', [0, 1, 2, 3]); w = {'budget': 3, 'hist': ['n=%d' % n]}; ex.hist = w['hist']
        futs = [Fut(i, w) for i in range(n)]
        ja = Struct('JoinAll', [VecObj([Enum('JoinFuture', 'Future', [BoxObj(f)]) for f in futs])])
        cx = ContextObj(WakerObj(1))
        for k in range(6):
            try: r = ex.run(POLL, [Ref(LCell(Cell(ja))), Ref(LCell(Cell(cx)))])
            except Panic as p:
                acc.violated(ex, 'C06/join_all_never_polls_a_completed_input', True, hist=w['hist'], what=str(p)); return
            alldone = all(f.done for f in futs)
            acc.violated(ex, 'C06/join_all_resolves_exactly_when_every_input_has_resolved', (r.variant == 'Ready') != alldone, hist=w['hist'],
                         what='JoinAll returned %s with inputs done=%s' % (r.variant, [f.done for f in futs]))
            if r.variant == 'Ready':
                vals = [z3.simplify(c_.v).as_long() for c_ in r.f[0].v.items]
                acc.violated(ex, 'C06/join_all_keeps_input_order', vals != [10 + i for i in range(n)], hist=w['hist'], what='outputs %s' % vals)
                acc.wit['c06_join_all_resolved'] += 1; return
            w['hist'].append('poll')
    acc = explore(ctx.mk, body, seed=seed, seed_paths=64)
    acc.to_report(rep)
    for k, v in acc.viol.items():
        path = core.write_replay('C06', k, {'obligation': k, 'history': v['hist'], 'what': v['what']})
        rep.violation(k + ': ' + ' '.join(v['hist']), v['what'], replay=path, reproduced=True)


def run(rep, tier, seed):
    rep.need_witness('c06_idle_stop', 'c06_forced_stop', 'c06_graceful_true', 'c06_graceful_timeout', 'c06_graceful_waiting')
    q = tier == 'quick'
    acts = ('conn', 'finish', 'stop', 'tick')
    runs = [('S1', dict(S=1, steps=5 if q else 6, env_per_step=2, max_conns=2 if q else 3, pend_budget=1, err_budget=0, restart_pend_budget=0, actions=acts, checks=(chk_c06, chk_c07)))]
    if not q:
        # (no run with two Stop requests to one worker: the server sends each worker exactly one - obligation
        # `every_worker_receives_one_stop_with_the_commands_mode` of the server-side world; a second one is outside the reachable environment)
        runs.append(('S2', dict(S=2, steps=4, env_per_step=2, max_conns=2, pend_budget=1, err_budget=1, actions=acts, checks=(chk_c06, chk_c07))))
    # the accept thread returns when it processes Stop and drops every connection sender: `close` at any point
    runs.append(('S1-accept-exit', dict(S=1, steps=4 if q else 5, env_per_step=2, max_conns=2, pend_budget=1, err_budget=0, restart_pend_budget=0,
                                        actions=('conn', 'finish', 'stop', 'close'), checks=(chk_c06, chk_c06_exit))))
    rep.need_witness('c06_exit_without_stop')
    run_worker_property(rep, 'C06', runs, tier, seed, keep=('C06/',))
    # accept side: Stop in every order with pause/resume/connects
    aruns = [('accept-stop', dict(W=1, L=2, uds=True, limit=2, turns=4 if q else 5, env_per_turn=2, max_conns=2, track_count=True,
                                  actions=('connect', 'finish', 'pause', 'resume', 'stop'), checks=(chk_stop,)))]
    rep.need_witness('loop_returned_on_stop', 'c06_count_checked_at_send')
    ctx = srvchecks.run_accept_property(rep, 'C06', aruns, tier, seed, also=('accept_loop',))
    if ctx is not None:
        map_signal(rep, ctx)
        rep.need_witness('c06_join_all_resolved'); join_all(rep, ctx, seed)
        # server side: the real ServerInner::run / handle_cmd coroutines, ServerHandle futures, signals
        from props import srvrworld
        rep.need_witness('c06_srv_graceful_waited', 'c06_srv_forced', 'c06_srv_completion_sent', 'c06_srv_system_stopped', 'c06_srv_two_stops', 'c06_srv_resolved', 'c06_srv_pause_resume')
        srvrworld.run_server_side(rep, ctx, tier, seed)


def chk_stop(w):
    """After the iteration that processed Stop the loop has returned (checked by the runner: it returns only on Stop); while
    it is still running after a Stop command was queued, nothing may be registered once the command has been processed."""
    if w.stopped and w.mw.pending == 0 and not w.mq.value.v.items:
        w.acc.violated(w.ex, 'C06/accept_loop_returns_once_stop_is_processed', True, hist=w.hist,
                       what='the accept loop went back to Poll::poll although the Stop interest had been consumed')


def replay(path):
    d = json.load(open(path))
    if d.get('side') == 'worker': return replay_file(path)
    if d.get('side') == 'server':
        from props import srvrdiff
        return srvrdiff.replay_file(path)
    if 'tokens' in d: return srvchecks.replay_file(path)
    print(d); return 1
