"""C03 - back-pressure releases: spare worker capacity is always used (no lost wake-up).  Engine S, real accept loop."""
from props.srvchecks import *


def run(rep, tier, seed):
    rep.need_witness('c03_quiescent_states', 'c03_quiescent_with_load')
    acts = ('connect', 'finish')
    q = tier == 'quick'
    runs = [('W1', dict(W=1, L=1, turns=14, env_per_turn=3, max_conns=7 if q else 9, actions=acts, checks=(chk_c03,))),
            ('W1-race', dict(W=1, L=1, turns=12, env_per_turn=2, max_conns=5 if q else 7, actions=acts, race=True, pickup=True, checks=(chk_c03,))),
            ('W2', dict(W=2, L=1, turns=12, env_per_turn=2, max_conns=5 if q else 6, actions=acts, pickup=True, checks=(chk_c03,))),
            ('W1-L2', dict(W=1, L=2, turns=12, env_per_turn=2, max_conns=4 if q else 6, actions=acts, checks=(chk_c03,)))]
    if not q:
        runs += [('W2-L2', dict(W=2, L=2, turns=10, env_per_turn=2, max_conns=5, actions=acts, checks=(chk_c03,))),
                 ('W3', dict(W=3, L=1, turns=10, env_per_turn=3, max_conns=6, actions=acts, checks=(chk_c03,)))]
    run_accept_property(rep, 'C03', runs, tier, seed)


def replay(path): return replay_file(path)
