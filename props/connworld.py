"""Engine-S world for the actix-tls connector (C19, partial): the real `ConnectInfo::{new,set_addr,set_addrs,set_port,
set_local_addr,hostname,port}`, `ResolverService::call`, `ResolverFut::poll` (Resolved and default-lookup arms),
`TcpConnectorService::call`, `TcpConnectorFut::{new,poll}`, `ConnectorService::call`, `ConnectServiceResponse::poll` and the
rustls-0_23 `TlsConnectorService::call` / `ConnectFut::poll`, from the MIR of actix-tls compiled against the model crates.
The inner `async fn connect(addr, local_addr)` and the blocking DNS lookup are scripted futures that log their arguments;
every per-address outcome, the lookup outcome and the TLS handshake outcome are solver choices."""
import os, json, random, time, ipaddress
import z3
from vlib import core, mir
from mirsym import parse_mir, Exec, Ref, LCell, Cell, Enum, Struct, Tuple, Abort, Panic, Unknown, UNIT, Opaque, ClosureVal, CoroutineVal
import models, srvmodels
from models import MODELS, parse_layouts, ContextObj, WakerObj, DequeObj, VecObj, IterObj, IoErr, call_closure, target, BoxObj
from explore import explore_levels, boundary, Acc, explore
from props.tlsworld import TlsCtx, _impl_is


class StrObj:
    canon_fields = ('s',)
    def __init__(self, s): self.s = s
    def model_drop(self, ex): pass
def _str(v):
    while isinstance(v, Ref): v = v.lv.get()
    if isinstance(v, StrObj): return v.s
    if isinstance(v, Opaque) and v.what.startswith('"'): return v.what.strip('"')      # a string literal in the code under analysis
    raise Unknown('string value %r' % (v,))
class HostObj:
    canon_fields = ('host', 'port')
    def __init__(self, host, port): self.host, self.port = host, port
    def model_drop(self, ex): pass
class IpObj:
    """std::net::IpAddr (an enum V4 | V6 over Ipv4Addr / Ipv6Addr): the real `connect()` body matches on it"""
    canon_fields = ('ip',)
    def __init__(self, ip): self.ip = ip
    def model_drop(self, ex): pass
    def v6(self): return ':' in self.ip
    def model_discriminant(self): return 1 if self.v6() else 0
    def model_downcast(self, variant):
        if variant != ('V6' if self.v6() else 'V4'): raise Unknown('bad downcast of IpAddr %s as %s' % (self.ip, variant))
        return Struct('IpAddr::' + variant, [IpObj(self.ip)])
class SockObj:
    canon_fields = ('v6', 'bound')
    def __init__(self, v6): self.v6, self.bound = v6, None
    def model_drop(self, ex): pass
class AddrObj:
    canon_fields = ('ip', 'port')
    def __init__(self, ip, port): self.ip, self.port = ip, port
    def model_drop(self, ex): pass
    def key(self):
        p = z3.simplify(self.port) if z3.is_expr(self.port) else self.port
        return (self.ip, p.as_long() if z3.is_expr(p) and z3.is_bv_value(p) else str(p))
class FmtObj:
    def __init__(self, args): self.args = args
    def model_drop(self, ex): pass
class DialFut:
    canon_fields = ('addr', 'done')
    def __init__(self, w, addr, local): self.w, self.addr, self.local, self.done = w, addr, local, False
    def model_drop(self, ex): pass
class JoinObj:
    canon_fields = ('done',)
    def __init__(self, w, host): self.w, self.host, self.done = w, host, False
    def model_drop(self, ex): pass
class RbfObj:
    def __init__(self, fut): self.fut = fut
    def model_drop(self, ex): pass
class TlsConnectObj:
    canon_fields = ('name', 'done')
    def __init__(self, w, name, io): self.w, self.name, self.io, self.done = w, name, io, False
    def model_drop(self, ex): pass


_DUMP = {}
class ConnCtx:
    def __init__(self, flavour='rustls_0_23'):
        self.flavour = flavour
        if 'txt' not in _DUMP: _DUMP['txt'] = mir.dep_of_mount('actix-tls', 'actix-tls') + '\n' + mir.repo_crate('actix-utils')
        self.fns = parse_mir(_DUMP['txt'])
        R = core.REPO + '/actix-tls/src/connect/'
        self.structs, self.enums = parse_layouts([R + f for f in ('info.rs', 'connection.rs', 'connector.rs', 'resolver.rs', 'tcp.rs', 'connect_addrs.rs', 'error.rs', flavour + '.rs')] +
                                                 [core.REPO + '/actix-utils/src/future/ready.rs'])
        rx = Exec(self.fns, MODELS, self.structs, self.enums)
        def M(ty, meth, tr=None, contains=''):
            c = [g for n, g in self.fns.items() if n.endswith('::' + meth) and contains in n and g.impl_loc and _impl_is(rx, g, ty, tr)]
            if len(c) != 1: raise core.Inconclusive('cannot locate %s::%s (%s) in the MIR dump of actix-tls: %d candidates' % (ty, meth, contains, len(c)))
            return c[0]
        self.INFO_NEW = M('ConnectInfo', 'new'); self.SET_ADDR = M('ConnectInfo', 'set_addr'); self.SET_ADDRS = M('ConnectInfo', 'set_addrs')
        self.SET_PORT = M('ConnectInfo', 'set_port'); self.SET_LOCAL = M('ConnectInfo', 'set_local_addr')
        self.TCP_CALL = M('TcpConnectorService', 'call', 'Service'); self.TCP_POLL = M('TcpConnectorFut', 'poll', 'Future')
        self.CONN_CALL = M('ConnectorService', 'call', 'Service'); self.CONN_POLL = M('ConnectServiceResponse', 'poll', 'Future')
        self.TLS_CALL = M('TlsConnectorService', 'call', 'Service', 'connect/' + flavour); self.TLS_POLL = M('ConnectFut', 'poll', 'Future', 'connect/' + flavour)
        self.CONNECTION_NEW = M('Connection', 'new', None, 'connection.rs')
        for need in ('ConnectInfo', 'Connection', 'ConnectorService', 'ResolverService'):
            if need not in self.structs: raise core.Inconclusive('layout of %s not found' % need)

    def mk(self):
        ex = Exec(self.fns, MODELS, self.structs, self.enums); ex.wakes = {}
        return ex


class ConnWorld:
    def __init__(self, ctx, ex, acc):
        self.c, self.ex, self.acc = ctx, ex, acc
        ex.connworld = self
        self.dials = []      # (AddrObj, local IpObj|None) in dial order
        self.dial_futs = []
        self.lookups = []    # FmtObj args of every default lookup
        self.hist = []; ex.hist = self.hist
        self.pend_budget = 2; self.script = None
        self.tls_names = []

    def R(self, v): return Ref(LCell(Cell(v)))

    def answer(self, kind, opts):
        if self.script is not None: a = self.script.pop(0) if self.script else opts[0]
        else:
            o = [x for x in opts if x != 'p' or self.pend_budget > 0]
            a = self.ex.pick(kind, o)
            if a == 'p': self.pend_budget -= 1
        self.hist.append('%s=%s' % (kind, a))
        return a

    def mk_info(self, host, hport, preset, port_override, local):
        ex, c = self.ex, self.c
        info = ex.run(c.INFO_NEW, [HostObj(host, hport)])
        if port_override is not None: info = ex.run(c.SET_PORT, [info, port_override])
        if preset is not None:
            if len(preset) == 1 and preset[0] == 'one': pass
            info = ex.run(c.SET_ADDRS, [info, VecObj(list(preset))])
        if local is not None: info = ex.run(c.SET_LOCAL, [info, local])
        return info


# ---------------------------------------------------------------- callee models
def m_host_hostname(ex, a, t):
    h = target(a[0]); return Ref(LCell(Cell(StrObj(h.host))))
def m_host_port(ex, a, t):
    h = target(a[0])
    return Enum('Option', 'None') if h.port is None else Enum('Option', 'Some', [h.port])
def m_unwrap_or(ex, a, t): return a[0].f[0].v if a[0].variant == 'Some' else a[1]
def m_str_parse_ip(ex, a, t):
    s = a[0]
    while isinstance(s, Ref): s = s.lv.get()
    try: ip = ipaddress.ip_address(s.s); return Enum('Result', 'Ok', [IpObj(str(ip))])
    except ValueError: return Enum('Result', 'Err', [Opaque('AddrParseError')])
def m_sockaddr_new(ex, a, t): return AddrObj(a[0].ip, a[1])
def m_vd_from_iter(ex, a, t):
    src = a[0]; d = DequeObj()
    items = src.items
    d.items = [x.v if isinstance(x, Cell) else x for x in items]
    if isinstance(src, IterObj): d.items = list(src.items)
    return d
def m_vd_len(ex, a, t): return z3.BitVecVal(len(target(a[0]).items), 64)
def m_vd_into_iter(ex, a, t): return IterObj(list(a[0].items))
def m_args_new(ex, a, t):
    arr = a[1]
    while isinstance(arr, Ref): arr = arr.lv.get()
    return FmtObj([c.v for c in arr.e]) if hasattr(arr, 'e') else FmtObj([])
def m_arg_display(ex, a, t):
    v = a[0]
    while isinstance(v, Ref): v = v.lv.get()
    return v
def m_format(ex, a, t): return a[0]
def m_spawn_blocking(ex, a, t):
    clo = a[0]; host = clo.f[0].v if getattr(clo, 'f', None) else None
    w = ex.connworld; w.lookups.append(host)
    return JoinObj(w, host)
def m_join_poll(ex, a, t):
    j = a[0]
    while isinstance(j, Ref): j = j.lv.get()
    w = j.w
    if j.done: raise Panic('JoinHandle polled after completion')
    ans = w.answer('lookup', ['list2', 'list1', 'empty', 'err', 'joinerr', 'p'])
    if ans == 'p': return Enum('Poll', 'Pending')
    j.done = True
    if ans == 'joinerr': return Enum('Poll', 'Ready', [Enum('Result', 'Err', [Opaque('JoinError')])])
    if ans == 'err': return Enum('Poll', 'Ready', [Enum('Result', 'Ok', [Enum('Result', 'Err', [IoErr(Enum('ErrorKind', 'Other'))])])])
    n = {'list2': 2, 'list1': 1, 'empty': 0}[ans]
    w.resolved = [AddrObj('10.0.0.%d' % (k + 1), z3.BitVecVal(0, 16)) for k in range(n)]
    return Enum('Poll', 'Ready', [Enum('Result', 'Ok', [Enum('Result', 'Ok', [IterObj(list(w.resolved))])])])
class CustomResolver:
    canon_fields = ()
    def model_drop(self, ex): pass
class LookupFut:
    canon_fields = ('done',)
    def __init__(self, w): self.w, self.done = w, False
    def model_drop(self, ex): pass
    def poll(self, ex):
        w = self.w
        if self.done: raise Panic('custom lookup future polled after completion')
        ans = w.answer('lookup', ['list2', 'list1', 'empty', 'err', 'p'])
        if ans == 'p': return Enum('Poll', 'Pending')
        self.done = True
        if ans == 'err': return Enum('Poll', 'Ready', [Enum('Result', 'Err', [Opaque('custom resolver error')])])
        n = {'list2': 2, 'list1': 1, 'empty': 0}[ans]
        w.resolved = [AddrObj('10.0.0.%d' % (k + 1), z3.BitVecVal(7000 + k, 16)) for k in range(n)]
        return Enum('Poll', 'Ready', [Enum('Result', 'Ok', [VecObj(list(w.resolved))])])
def m_custom_lookup(ex, a, t):
    # <dyn Resolve as Resolve>::lookup(&self, host: &str, port: u16): the scripted custom resolver logs its arguments
    w = ex.connworld; w.lookups.append(FmtObj([StrObj(_str(a[1])), a[2]]))
    return BoxObj(LookupFut(w))
def m_connect(ex, a, t):
    w = ex.connworld; local = a[1]
    loc = local.f[0].v if isinstance(local, Enum) and local.variant == 'Some' else None
    f = DialFut(w, a[0], loc); w.dials.append((a[0], loc)); w.dial_futs.append(f)
    return f
def m_rbf_new(ex, a, t): return RbfObj(a[0])
def m_rbf_set(ex, a, t): target(a[0]).fut = a[1]; return UNIT
def m_sock_new(v6): return lambda ex, a, t: Enum('Result', 'Ok', [SockObj(v6)])
def m_sockaddr_vx_new(ex, a, t): return AddrObj(a[0].ip, a[1])          # SocketAddrV4::new(ip, port) / SocketAddrV6::new(ip, port, flow, scope)
def _addr_of(v):
    while isinstance(v, Ref): v = v.lv.get()
    if isinstance(v, Enum) and v.name == 'SocketAddr': v = v.f[0].v
    return v
def m_sock_bind(ex, a, t):
    so = target(a[0]); addr = _addr_of(a[1])
    if (':' in addr.ip) != so.v6: return Enum('Result', 'Err', [IoErr(Enum('ErrorKind', 'InvalidInput'))])     # the kernel rejects a v4 address on a v6 socket and vice versa
    so.bound = addr; return Enum('Result', 'Ok', [UNIT])
def m_sock_connect(ex, a, t):
    w = ex.connworld; so = a[0]; addr = _addr_of(a[1])
    loc = IpObj(so.bound.ip) if so.bound is not None else None
    if loc is not None and ex.truth(so.bound.port != z3.BitVecVal(0, 16)): loc = IpObj(so.bound.ip + ':nonzero-port')
    f = DialFut(w, addr, loc); w.dials.append((addr, loc)); w.dial_futs.append(f)
    return f
def m_stream_connect(ex, a, t):
    w = ex.connworld; addr = _addr_of(a[0])
    f = DialFut(w, addr, None); w.dials.append((addr, None)); w.dial_futs.append(f)
    return f
def m_dialfut_poll(ex, a, t):
    f = a[0]
    while isinstance(f, Ref): f = f.lv.get()
    w = f.w
    if f.done: raise Panic('connect future polled after completion')
    ans = w.answer('dial', ['ok', 'err', 'p'])
    if ans == 'p': return Enum('Poll', 'Pending')
    f.done = True
    if ans == 'ok': return Enum('Poll', 'Ready', [Enum('Result', 'Ok', [Struct('TcpStream', [f])])])
    e = IoErr(Enum('ErrorKind', 'Other')); e.dial = f
    return Enum('Poll', 'Ready', [Enum('Result', 'Err', [e])])
def m_rbf_poll(ex, a, t):
    f = target(a[0]).fut
    if isinstance(f, CoroutineVal): return models.poll_coroutine(ex, f, a[1] if len(a) > 1 else None)      # the real `async fn connect` body
    w = f.w
    if f.done: raise Panic('connect future polled after completion')
    ans = w.answer('dial', ['ok', 'err', 'p'])
    if ans == 'p': return Enum('Poll', 'Pending')
    f.done = True
    if ans == 'ok': return Enum('Poll', 'Ready', [Enum('Result', 'Ok', [Struct('TcpStream', [f])])])
    e = IoErr(Enum('ErrorKind', 'Other')); e.dial = f
    return Enum('Poll', 'Ready', [Enum('Result', 'Err', [e])])
def m_peer_addr(ex, a, t): return Enum('Result', 'Ok', [Opaque('peer')])
def m_poll_map_ok(ex, a, t):
    p, fn_ = a
    if p.variant != 'Ready' or p.f[0].v.variant != 'Ok': return p
    v = p.f[0].v.f[0].v
    name = getattr(fn_, 'what', '') if isinstance(fn_, Opaque) else ''
    variant = 'Resolved' if 'Resolved' in name else 'Connected'
    return Enum('Poll', 'Ready', [Enum('Result', 'Ok', [Enum('ConnectFutState', variant, [v])])])
def m_box_err_new(ex, a, t): return a[0]
def m_joinerr_into(ex, a, t): return IoErr(Enum('ErrorKind', 'Other'))
def m_opt_and_then(ex, a, t):
    o, clo = a
    if o.variant != 'Some': return Enum('Option', 'None')
    return call_closure(ex, clo, [o.f[0].v])
def m_opt_as_mut(ex, a, t):
    o = target(a[0])
    return Enum('Option', 'Some', [Ref(LCell(o.f[0]))]) if o.variant == 'Some' else Enum('Option', 'None')
def m_opt_expect(ex, a, t):
    if a[0].variant != 'Some': raise Panic('expect on None')
    return a[0].f[0].v
def m_server_name(ex, a, t):
    s = StrObj(_str(a[0]))
    w = ex.connworld
    if w.name_valid: return Enum('Result', 'Ok', [StrObj(s.s)])
    return Enum('Result', 'Err', [Opaque('InvalidDnsNameError')])
def m_tls_connector_connect(ex, a, t):
    w = ex.connworld; name = StrObj(_str(a[1]))
    w.tls_names.append(name.s)
    return TlsConnectObj(w, name.s, a[2])
def m_tls_connect_poll(ex, a, t):
    c = a[0]
    while isinstance(c, Ref): c = c.lv.get()
    w = c.w
    if c.done: raise Panic('TLS connect future polled after completion')
    ans = w.answer('tls', ['ok', 'err', 'p'])
    if ans == 'p': return Enum('Poll', 'Pending')
    c.done = True
    if ans == 'ok': return Enum('Poll', 'Ready', [Enum('Result', 'Ok', [Struct('ClientTlsStream', [c.io])])])
    e = IoErr(Enum('ErrorKind', 'InvalidData')); e.tls = True
    return Enum('Poll', 'Ready', [Enum('Result', 'Err', [e])])
def m_io_error_new(ex, a, t):
    e = IoErr(a[0] if isinstance(a[0], Enum) else Enum('ErrorKind', 'Other'))
    # the payload: `format!("{}", err)` is modelled as its argument list, so the error keeps a reference to what it was built from
    pl = a[1] if len(a) > 1 else None
    if isinstance(pl, FmtObj) and any(getattr(x, 'tls', False) for x in pl.args): e.tls = True
    return e
# OpenSSL flavour: SslConnector::configure -> ConnectConfiguration::into_ssl(host) -> tokio_openssl::SslStream::new(ssl, io) -> poll_connect
class SslObj:
    canon_fields = ('name',)
    def __init__(self, name): self.name = name
    def model_drop(self, ex): pass
def m_ssl_configure(ex, a, t): return Enum('Result', 'Ok', [Opaque('connect-configuration')])
def m_into_ssl(ex, a, t):
    w = ex.connworld; name = StrObj(_str(a[1]))
    w.tls_names.append(name.s)
    return Enum('Result', 'Ok', [SslObj(name.s)])
def m_sslstream_new(ex, a, t):
    ssl = a[0]
    if not isinstance(ssl, SslObj): raise Unknown('SslStream::new with an Ssl that did not come from into_ssl')
    return Enum('Result', 'Ok', [TlsConnectObj(ex.connworld, ssl.name, a[1])])
def m_ssl_poll_connect(ex, a, t):
    c = a[0]
    while isinstance(c, Ref): c = c.lv.get()
    w = c.w
    if c.done: raise Panic('SslStream::poll_connect after completion')
    ans = w.answer('tls', ['ok', 'err', 'p'])
    if ans == 'p': return Enum('Poll', 'Pending')
    c.done = True
    if ans == 'ok': return Enum('Poll', 'Ready', [Enum('Result', 'Ok', [UNIT])])
    e = Opaque('openssl::ssl::Error'); e.tls = True
    return Enum('Poll', 'Ready', [Enum('Result', 'Err', [e])])
def m_mem_take_addrs(ex, a, t):
    lv = a[0].lv; old = lv.get(); lv.set(Enum('ConnectAddrs', 'None')); return old

MODELS[:0] = [
    (r'^<R as Host>::hostname$', m_host_hostname), (r'^<R as Host>::port$', m_host_port), (r'^Option::<u16>::unwrap_or$', m_unwrap_or),
    (r'core::str::<impl str>::parse::<(std::net::)?IpAddr>$', m_str_parse_ip), (r'(std::net::)?SocketAddr::new$', m_sockaddr_new),
    (r'^<VecDeque<.*> as FromIterator<.*>>::from_iter::<', m_vd_from_iter), (r'(?:^|::)VecDeque::<.*>::len$', m_vd_len), (r'^<VecDeque<.*> as IntoIterator>::into_iter$', m_vd_into_iter),
    (r'^Arguments::<.*>::new::<', m_args_new), (r'Argument::<.*>::new_display::<', m_arg_display), (r'^format$', m_format), (r'^must_use::<String>$', m_format),
    (r'^spawn_blocking::<', m_spawn_blocking), (r'^<actix_rt::task::JoinHandle<.*> as Future>::poll$', m_join_poll),
    (r'^<dyn Resolve as Resolve>::lookup$', m_custom_lookup), (r'^<Pin<Box<dyn Future<.*>>> as Future>::poll$', models.m_dyn_fut_poll), (r'as IntoFuture>::into_future$', srvmodels.m_identity), (r'^<Rc<dyn Resolve> as Deref>::deref$', lambda ex, a, t: target(a[0])),
    (r'TcpSocket::new_v4$', m_sock_new(False)), (r'TcpSocket::new_v6$', m_sock_new(True)), (r'SocketAddrV[46]::new$', m_sockaddr_vx_new), (r'TcpSocket::bind$', m_sock_bind),
    (r'TcpSocket::connect$', m_sock_connect), (r'(?:^|::)TcpStream::connect$', m_stream_connect), (r'^<(actix_rt::net::)?ConnectFut as Future>::poll$', m_dialfut_poll), (r'^ReusableBoxFuture::<.*>::new::<', m_rbf_new), (r'^ReusableBoxFuture::<.*>::set::<', m_rbf_set), (r'^ReusableBoxFuture::<.*>::poll$', m_rbf_poll),
    (r'TcpStream::peer_addr$', m_peer_addr), (r'^Poll::<Result<.*>>::map_ok::<', m_poll_map_ok), (r'^Box::<std::io::Error>::new$', m_box_err_new),
    (r'^<JoinError as Into<std::io::Error>>::into$', m_joinerr_into), (r'^Option::<.*>::and_then::<', m_opt_and_then), (r'^Option::<.*>::as_mut$', m_opt_as_mut),
    (r'^Option::<.*>::expect$', m_opt_expect), (r'^<ServerName<.*> as TryFrom<&str>>::try_from$', m_server_name), (r'^ServerName::<.*>::to_owned$', srvmodels.m_identity),
    (r'SslConnector::configure$', m_ssl_configure), (r'ConnectConfiguration::into_ssl$', m_into_ssl), (r'SslStream::<.*>::new$', m_sslstream_new), (r'SslStream::<.*>::poll_connect$', m_ssl_poll_connect),
    (r'^<SslConnector as Clone>::clone$', lambda ex, a, t: target(a[0])),
    (r'TlsConnector::connect::<', m_tls_connector_connect), (r'^<(tokio_rustls::)?Connect<.*> as Future>::poll$', m_tls_connect_poll),
    (r'^std::io::Error::new::<', m_io_error_new), (r'^std::mem::take::<ConnectAddrs>$', m_mem_take_addrs),
    (r'^<Rc<dyn Resolve> as Clone>::clone$', srvmodels.m_identity),
]


# ---------------------------------------------------------------- exploration
HOSTS = ['example.org', '127.0.0.1', '::1', 'example.org:8080']


def poll_loop(w, ex, fn, fut, max_polls=8):
    cx = ContextObj(WakerObj(1))
    for k in range(max_polls):
        r = ex.run(fn, [Ref(LCell(Cell(fut))), Ref(LCell(Cell(cx)))])
        if r.variant == 'Ready': return r.f[0].v
    raise Abort()


def body_connector(ctx):
    def body(ex, acc):
        w = ConnWorld(ctx, ex, acc)
        host = ex.pick('host', ['example.org', '127.0.0.1', '::1'])
        hport = ex.pick('hostport', ['none', 'some'])
        hp = None if hport == 'none' else z3.BitVec('host_port', 16)
        npre = ex.pick('preset', [0, 1, 2, 3])
        preset = [AddrObj('192.0.2.%d' % (k + 1), z3.BitVecVal(9000 + k, 16)) for k in range(npre)] if npre else None
        setport = z3.BitVec('set_port', 16) if ex.pick('setport', ['no', 'yes']) == 'yes' else None
        local = IpObj(ex.pick('local', ['none', '198.51.100.7', '2001:db8::7']))
        local = None if local.ip == 'none' else local
        rkind = ex.pick('resolver', ['default', 'custom'])
        w.hist.append('host=%s hostport=%s preset=%d set_port=%s local=%s resolver=%s' % (host, hport, npre, setport is not None, local.ip if local else None, rkind))
        info = w.mk_info(host, hp, preset, setport, local)
        eff_port = hp if hp is not None else (setport if setport is not None else z3.BitVecVal(0, 16))
        kind = Enum('ResolverKind', 'Default') if rkind == 'default' else Enum('ResolverKind', 'Custom', [CustomResolver()])
        svc = Struct('ConnectorService', [Struct('TcpConnectorService', []), Struct('ResolverService', [kind])])
        order = ctx.structs['ConnectorService']
        if order != ['tcp', 'resolver']: raise core.Inconclusive('ConnectorService fields changed: %s' % order)
        fut = ex.run(ctx.CONN_CALL, [w.R(svc), info])
        try:
            res = poll_loop(w, ex, ctx.CONN_POLL, fut)
        except Panic as p:
            acc.violated(ex, 'C19/connector_never_panics', True, hist=w.hist, what=str(p)); return
        acc.transitions += 1
        is_ip = host in ('127.0.0.1', '::1')
        dial_keys = [(d[0].ip, d[0].port) for d in w.dials]
        # ---- resolution precedence
        if npre:
            acc.violated(ex, 'C19/preresolved_request_is_never_re_resolved', len(w.lookups) != 0, hist=w.hist)
            expected = preset
            acc.wit['c19_preresolved'] += 1
        elif is_ip:
            acc.violated(ex, 'C19/ip_literal_is_dialled_directly_without_lookup', len(w.lookups) != 0, hist=w.hist)
            expected = [AddrObj(host, eff_port)]
            acc.wit['c19_ip_literal'] += 1
        else:
            acc.violated(ex, 'C19/other_hosts_go_through_the_resolver_exactly_once', len(w.lookups) != 1, hist=w.hist, what='%d lookups' % len(w.lookups))
            if w.lookups:
                args = w.lookups[0].args if isinstance(w.lookups[0], FmtObj) else []
                ok = len(args) == 2 and isinstance(args[0], StrObj) and args[0].s == host
                acc.violated(ex, 'C19/resolver_is_asked_for_hostname_and_request_port', (not ok) or (args[1] != eff_port), hist=w.hist,
                             what='lookup arguments %s' % [getattr(x, 's', x) for x in args])
            expected = [AddrObj(a_.ip, a_.port) for a_ in getattr(w, 'resolved', [])]
            acc.wit['c19_lookup'] += 1
            if rkind == 'custom': acc.wit['c19_custom_resolver'] += 1
        lookup_ans = [h for h in w.hist if h.startswith('lookup=') and not h.endswith('=p')]
        la = lookup_ans[0].split('=')[1] if lookup_ans else None
        if la == 'empty':
            acc.violated(ex, 'C19/empty_answer_is_NoRecords', not (res.variant == 'Err' and res.f[0].v.variant == 'NoRecords'), hist=w.hist); return
        if la == 'err':
            acc.violated(ex, 'C19/resolver_failure_is_Resolver_error', not (res.variant == 'Err' and res.f[0].v.variant == 'Resolver'), hist=w.hist); return
        if la == 'joinerr':
            acc.violated(ex, 'C19/lookup_task_failure_is_an_Io_error', not (res.variant == 'Err' and res.f[0].v.variant == 'Io'), hist=w.hist); return
        # ---- ordered fallback
        outcomes = [h.split('=')[1] for h in w.hist if h.startswith('dial=') and not h.endswith('=p')]
        n_exp = len(expected)
        first_ok = outcomes.index('ok') if 'ok' in outcomes else None
        want_dials = n_exp if first_ok is None else first_ok + 1
        acc.violated(ex, 'C19/addresses_are_dialled_in_order_until_the_first_success', len(w.dials) != want_dials, hist=w.hist,
                     what='%d dials, expected %d' % (len(w.dials), want_dials))
        for k, (d, loc) in enumerate(w.dials):
            if k < n_exp:
                e = expected[k]
                acc.violated(ex, 'C19/addresses_are_dialled_in_order_until_the_first_success', z3.BoolVal(d.ip != e.ip) if not z3.is_expr(d.port) and not z3.is_expr(e.port) else z3.Or(z3.BoolVal(d.ip != e.ip), d.port != e.port), hist=w.hist,
                             what='dial %d went to %s, expected %s' % (k, d.key(), e.key()))
            acc.violated(ex, 'C19/local_bind_address_reaches_every_dial', (loc.ip if loc is not None else None) != (local.ip if local is not None else None), hist=w.hist)
        if first_ok is not None:
            okres = res.variant == 'Ok'
            same = okres and _stream_of(ex, ctx, res.f[0].v) is w.dial_futs[first_ok]
            acc.violated(ex, 'C19/first_successful_connection_is_returned', not same, hist=w.hist, what='result %s' % res.variant)
            acc.wit['c19_connected'] += 1
            if first_ok > 0: acc.wit['c19_fallback_used'] += 1
        else:
            last = w.dial_futs[-1] if w.dial_futs else None
            is_io = res.variant == 'Err' and res.f[0].v.variant == 'Io'
            same = is_io and getattr(res.f[0].v.f[0].v, 'dial', None) is last
            acc.violated(ex, 'C19/all_failed_is_the_last_io_error', not same, hist=w.hist, what='result %s' % (res.f[0].v.variant if res.variant == 'Err' else 'Ok'))
            acc.wit['c19_all_failed'] += 1
        if len(acc.samples) < 4: acc.samples.append(' '.join(w.hist))
        acc.states.add(tuple(w.hist))
    return body


# ---------------------------------------------------------------- differential validation against the native driver
class _NullAcc:
    def __getattr__(self, k): raise AttributeError(k)

def _port(v):
    v = z3.simplify(v) if z3.is_expr(v) else v
    return v.as_long() if z3.is_expr(v) else int(v)

def conn_trace(ctx, case):
    """engine S on one concrete case (same trace format as mount/actix-tls/src/bin/conndrv.rs)"""
    ex = ctx.mk(); w = ConnWorld(ctx, ex, None)
    w.script = [('err' if a == 'lerr' else a) for a in case['answers']]
    hp = None if case['hport'] is None else z3.BitVecVal(case['hport'], 16)
    npre = case['preset']
    preset = [AddrObj('192.0.2.%d' % (k + 1), z3.BitVecVal(9000 + k, 16)) for k in range(npre)] if npre else None
    setport = None if case['setport'] is None else z3.BitVecVal(case['setport'], 16)
    local = IpObj(case['local']) if case['local'] else None
    info = w.mk_info(case['host'], hp, preset, setport, local)
    kind = Enum('ResolverKind', 'Default') if case['resolver'] == 'default' else Enum('ResolverKind', 'Custom', [CustomResolver()])
    svc = Struct('ConnectorService', [Struct('TcpConnectorService', []), Struct('ResolverService', [kind])])
    fut = ex.run(ctx.CONN_CALL, [w.R(svc), info])
    try: res = poll_loop(w, ex, ctx.CONN_POLL, fut, max_polls=16)
    except Abort: res = None
    except Panic: return 'PANIC'
    if res is None: r = 'res=pending'
    elif res.variant == 'Ok':
        st = _stream_of(ex, ctx, res.f[0].v); r = 'res=ok:%d' % _port(st.addr.port)
    else:
        e = res.f[0].v; r = 'res=err:' + e.variant
        if e.variant == 'Io':
            d = getattr(e.f[0].v, 'dial', None)
            r += ':%d' % (100 + w.dial_futs.index(d) if d is not None else -1)
    dials = ','.join('%s:%d@%s' % (d.ip, _port(d.port), loc.ip if loc is not None else '-') for d, loc in w.dials)
    looks = ','.join('%s:%d' % (l.args[0].s, _port(l.args[1])) for l in w.lookups)
    return '%s dials=[%s] lookups=[%s]' % (r, dials, looks)

def conn_line(case):
    o = lambda v: '-' if v is None else str(v)
    return 'conn host=%s hport=%s preset=%d setport=%s local=%s resolver=%s | %s' % (case['host'], o(case['hport']), case['preset'], o(case['setport']), case['local'] or '-', case['resolver'], ' '.join(case['answers']))

def tls_trace(ctx, host, answers):
    ex = ctx.mk(); w = ConnWorld(ctx, ex, None)
    w.script = list(answers); w.name_valid = (host == 'example.org') or ctx.flavour == 'openssl'
    fobj = DialFut(w, AddrObj('192.0.2.1', z3.BitVecVal(4242, 16)), None)
    stream = Struct('TcpStream', [fobj])
    conn = ex.run(ctx.CONNECTION_NEW, [HostObj(host, None), stream])
    fut = ex.run(ctx.TLS_CALL, [w.R(Struct('TlsConnectorService', [Opaque('client config')])), conn])
    try: res = poll_loop(w, ex, ctx.TLS_POLL, fut, max_polls=16)
    except Abort: res = None
    if res is None: r = 'res=pending'
    elif res.variant == 'Ok':
        c = res.f[0].v; io = c.f[ctx.structs['Connection'].index('io')].v; req = c.f[ctx.structs['Connection'].index('req')].v
        inner = io.io if isinstance(io, TlsConnectObj) else io.f[0].v
        r = 'res=ok:%d:%s' % (_port(inner.f[0].v.addr.port), req.host)
    else: r = 'res=err'
    return '%s names=[%s]' % (r, ','.join(w.tls_names))

def random_case(rnd):
    host = rnd.choice(['example.org', '127.0.0.1', '::1', 'svc.internal'])
    resolver = rnd.choice(['default', 'custom'])
    npre = rnd.choice([0, 0, 1, 2, 3])
    is_ip = host in ('127.0.0.1', '::1')
    if resolver == 'default' and not is_ip and npre == 0: npre = rnd.choice([1, 2, 3])     # the default lookup is the real getaddrinfo natively: not scripted
    ans = []
    naddr = npre if npre else 1
    if not npre and not is_ip:
        ans += ['p'] * rnd.choice([0, 0, 1, 2]); la = rnd.choice(['list2', 'list2', 'list1', 'empty', 'lerr']); ans.append(la)
        naddr = {'list2': 2, 'list1': 1}.get(la, 0)
    for k in range(naddr):
        ans += ['p'] * rnd.choice([0, 0, 1, 2]); o = rnd.choice(['ok', 'err', 'err']); ans.append(o)
        if o == 'ok': break
    return dict(host=host, hport=rnd.choice([None, None, 81, 8443]), preset=npre, setport=rnd.choice([None, None, 8080, 1]), local=rnd.choice([None, None, '198.51.100.7', '2001:db8::7']),
                resolver=resolver, answers=ans)

_NATIVE = {}
def build_native():
    if 'bin' in _NATIVE: return _NATIVE['bin']
    d = os.path.join(core.VERIF, 'mount', 'actix-tls'); tgt = core.workdir('mount-target', 'actix-tls-native')
    r = core.sh(['cargo', 'build', '--offline', '--release', '--features', 'drv', '--bin', 'conndrv', '--target-dir', tgt], cwd=d, timeout=900)
    if r.returncode != 0: raise core.Inconclusive('native connector driver does not build (does /repo still compile?):\n' + r.stderr[-2000:])
    _NATIVE['bin'] = os.path.join(tgt, 'release', 'conndrv'); return _NATIVE['bin']
def run_native(lines):
    r = core.sh([build_native()], input='\n'.join(lines) + '\n', timeout=300)
    out = r.stdout.strip().split('\n')
    if len(out) != len(lines): raise core.Inconclusive('native connector driver produced %d lines for %d cases: %s' % (len(out), len(lines), r.stderr[-500:]))
    return out

def differential(rep, ctx, octx, seed, n):
    rnd = random.Random(seed); lines = []; want = []
    for _ in range(n):
        c = random_case(rnd); lines.append(conn_line(c)); want.append(conn_trace(ctx, c))
    for fl, cx in (('rustls_0_23', ctx), ('openssl', octx)):
        for host in ('example.org', 'bad name'):
            for ans in (['ok'], ['p', 'ok'], ['p', 'p', 'err'], ['err']):
                lines.append('tls flavour=%s host=%s | %s' % (fl, host.replace(' ', '+'), ' '.join(ans))); want.append(tls_trace(cx, host, ans))
    nat = run_native(lines)
    bad = [(l, a, b) for l, a, b in zip(lines, nat, want) if a.strip() != b.strip()]
    rep.counters['traces_validated_against_impl'] += len(lines) - len(bad)
    if bad: rep.inconc('differential validation mismatch (actix-tls connector): case %r native %r engine %r' % bad[0])
    return not bad


def judge_conn(case, trace):
    """the property, evaluated on one native trace of the real connector (independent of engine S); returns the violated obligations"""
    import re
    m = re.match(r'res=(\S+) dials=\[(.*?)\] lookups=\[(.*?)\]$', trace.strip())
    if not m: return ['C19/connector_never_panics'] if 'PANIC' in trace else ['unparsable native trace']
    res = m.group(1); dials = [d for d in m.group(2).split(',') if d]; looks = [l for l in m.group(3).split(',') if l]
    bad = []
    eff = case['hport'] if case['hport'] is not None else (case['setport'] if case['setport'] is not None else 0)
    is_ip = case['host'] in ('127.0.0.1', '::1')
    ans = list(case['answers']); la = None
    if case['preset']:
        if looks: bad.append('C19/preresolved_request_is_never_re_resolved')
        expected = ['192.0.2.%d:%d' % (k + 1, 9000 + k) for k in range(case['preset'])]
    elif is_ip:
        if looks: bad.append('C19/ip_literal_is_dialled_directly_without_lookup')
        expected = ['%s:%d' % (case['host'], eff)]
    else:
        if len(looks) != 1: bad.append('C19/other_hosts_go_through_the_resolver_exactly_once')
        elif looks[0] != '%s:%d' % (case['host'], eff): bad.append('C19/resolver_is_asked_for_hostname_and_request_port')
        while ans and ans[0] == 'p': ans.pop(0)
        la = ans.pop(0) if ans else 'list2'
        expected = ['10.0.0.%d:%d' % (k + 1, 7000 + k) for k in range({'list2': 2, 'list1': 1}.get(la, 0))]
        if la == 'empty': return bad + ([] if res == 'err:NoRecords' else ['C19/empty_answer_is_NoRecords'])
        if la == 'lerr': return bad + ([] if res == 'err:Resolver' else ['C19/resolver_failure_is_Resolver_error'])
    outcomes = [a for a in ans if a != 'p']
    outcomes = outcomes[:len(expected)] + ['err'] * (len(expected) - len(outcomes))       # the native script answers `refused` once exhausted
    first_ok = outcomes.index('ok') if 'ok' in outcomes else None
    want = len(expected) if first_ok is None else first_ok + 1
    loc = case['local'] or '-'
    if [d.split('@')[0] for d in dials] != expected[:want]: bad.append('C19/addresses_are_dialled_in_order_until_the_first_success')
    if any(d.split('@')[1] != loc for d in dials): bad.append('C19/local_bind_address_reaches_every_dial')
    if first_ok is not None:
        if res != 'ok:%s' % expected[first_ok].rsplit(':', 1)[1]: bad.append('C19/first_successful_connection_is_returned')
    elif res != 'err:Io:%d' % (100 + len(expected) - 1): bad.append('C19/all_failed_is_the_last_io_error')
    return bad

def judge_tls(flavour, host, ans, trace):
    import re
    m = re.match(r'res=(\S+) names=\[(.*?)\]$', trace.strip())
    if not m: return ['unparsable native trace']
    res, names = m.group(1), [n for n in m.group(2).split(',') if n]
    final = [a for a in ans if a != 'p'][0] if [a for a in ans if a != 'p'] else 'ok'
    if host != 'example.org' and flavour != 'openssl':
        return [] if (res == 'err' and not names) else ['C19/syntactically_invalid_server_name_is_an_error']
    bad = []
    if names != [host]: bad.append('C19/tls_handshake_is_for_the_requests_hostname')
    if final == 'ok' and res != 'ok:4242:%s' % host: bad.append('C19/tls_success_wraps_the_same_stream')
    if final == 'err' and res != 'err': bad.append('C19/tls_back_end_failure_is_propagated')
    return bad

def case_of_violation(v):
    """concrete native case for a counterexample of the connector body; None if it runs through the default lookup (real getaddrinfo natively)"""
    cfg = dict(x.split('=', 1) for x in v['hist'][0].split())
    m = v['model']
    host = cfg['host']; npre = int(cfg['preset'])
    if cfg['resolver'] == 'default' and host not in ('127.0.0.1', '::1') and npre == 0: return None
    ans = []
    for h in v['hist'][1:]:
        k, a = h.split('=', 1)
        ans.append('lerr' if (k == 'lookup' and a == 'err') else a)
    if any(a == 'joinerr' for a in ans): return None
    return dict(host=host, hport=(int(m.get('host_port', 0)) if cfg['hostport'] == 'some' else None), preset=npre, setport=(int(m.get('set_port', 0)) if cfg['set_port'] == 'True' else None),
                local=(None if cfg['local'] == 'None' else cfg['local']), resolver=cfg['resolver'], answers=ans)


def _stream_of(ex, ctx, conn):
    io = conn.f[ctx.structs['Connection'].index('io')].v
    return io.f[0].v if isinstance(io, Struct) else None


def body_tcp_unresolved(ctx):
    def body(ex, acc):
        w = ConnWorld(ctx, ex, acc)
        info = w.mk_info('example.org', None, None, None, None)
        fut = ex.run(ctx.TCP_CALL, [w.R(Struct('TcpConnectorService', [])), info])
        res = poll_loop(w, ex, ctx.TCP_POLL, fut)
        acc.violated(ex, 'C19/unresolved_input_to_the_tcp_connector_is_Unresolved', not (res.variant == 'Err' and res.f[0].v.variant == 'Unresolved') or len(w.dials) != 0, hist=['tcp connector with ConnectAddrs::None'])
        acc.wit['c19_unresolved'] += 1
    return body


def body_tls(ctx):
    def body(ex, acc):
        w = ConnWorld(ctx, ex, acc)
        host = ex.pick('host', ['example.org', 'bad name'])
        w.name_valid = host == 'example.org' or ctx.flavour == 'openssl'   # OpenSSL has no name-syntax check of its own at this layer: every name goes to the library
        stream = Struct('TcpStream', [Opaque('the stream')])
        conn = ex.run(ctx.CONNECTION_NEW, [HostObj(host, None), stream])
        svc = Struct('TlsConnectorService', [Opaque('client config')])
        fut = ex.run(ctx.TLS_CALL, [w.R(svc), conn])
        w.hist.append('host=%s' % host)
        res = poll_loop(w, ex, ctx.TLS_POLL, fut)
        if not w.name_valid:
            acc.violated(ex, 'C19/syntactically_invalid_server_name_is_an_error', not (res.variant == 'Err') or len(w.tls_names) != 0, hist=w.hist)
            acc.wit['c19_tls_invalid_name'] += 1; return
        acc.violated(ex, 'C19/tls_handshake_is_for_the_requests_hostname', w.tls_names != [host], hist=w.hist, what='names handed to the TLS back end: %s' % w.tls_names)
        ans = [h.split('=')[1] for h in w.hist if h.startswith('tls=') and not h.endswith('=p')][0]
        if ans == 'ok':
            ok = res.variant == 'Ok'
            io = res.f[0].v.f[ctx.structs['Connection'].index('io')].v if ok else None
            if ctx.flavour == 'openssl': same = ok and isinstance(io, TlsConnectObj) and isinstance(io.io, Struct) and io.io.f[0].v is stream.f[0].v
            else: same = ok and isinstance(io, Struct) and isinstance(io.f[0].v, Struct) and io.f[0].v.f[0].v is stream.f[0].v
            acc.violated(ex, 'C19/tls_success_wraps_the_same_stream', not same, hist=w.hist)
            req = res.f[0].v.f[ctx.structs['Connection'].index('req')].v if ok else None
            acc.violated(ex, 'C19/tls_success_keeps_the_request', not (ok and isinstance(req, HostObj) and req.host == host), hist=w.hist)
            acc.wit['c19_tls_ok'] += 1
        else:
            acc.violated(ex, 'C19/tls_back_end_failure_is_propagated', not (res.variant == 'Err' and getattr(res.f[0].v, 'tls', False)), hist=w.hist)
            acc.wit['c19_tls_err'] += 1
    return body


def run_c19(rep, tier, seed):
    rep.engines.add('mirsym (engine S) + z3 %s' % z3.get_version_string())
    rep.models |= {'async fn connect(addr, local_addr) and the custom-resolver async block = the compiler\'s state-transformed coroutine MIR, executed with suspension; TcpSocket::{new_v4,new_v6,bind,connect} / TcpStream::connect = scripted dial logging address and bound local address',
                   'spawn_blocking / JoinHandle = scripted lookup (list of 2 / 1 / 0 addresses, lookup error, join error, Pending)',
                   'str::parse::<IpAddr> = Python ipaddress; format! = argument list', 'tokio_rustls::TlsConnector::connect = scripted handshake recording the server name', 'openssl ConnectConfiguration::into_ssl = records the host name; tokio_openssl::SslStream::poll_connect = scripted handshake',
                   'ServerName::try_from = valid / invalid chosen by the driver', 'ReusableBoxFuture = replaceable boxed future', 'VecDeque / Vec / Option / Poll::map_ok models'}
    rep.assumptions += ['PARTIAL: the default getaddrinfo lookup itself, host strings beyond the Kani bounds (see bounds.host_strings) and everything inside the TLS library (certificate validity, issuers, data integrity) are NOT covered',
                        'engine S is validated on every run against the real actix-tls connector compiled natively with scripted dial / lookup / handshake back ends (the default-lookup arm is excluded from that comparison: natively it is the real getaddrinfo)']
    ctx = ConnCtx(); octx = ConnCtx('openssl')
    t0 = time.time()
    if not differential(rep, ctx, octx, seed, 150 if tier == 'quick' else 1500): return
    for label, body, ctx in (('connector', body_connector(ctx), ctx), ('tcp-unresolved', body_tcp_unresolved(ctx), ctx), ('tls-connector rustls-0.23', body_tls(ctx), ctx), ('tls-connector openssl', body_tls(octx), octx)):
        acc = explore(ctx.mk, body, seed=seed, seed_paths=200)
        rep.bounds[label] = {'paths': acc.paths}
        acc.to_report(rep)
        for key, v in sorted(acc.viol.items()):
            fkey = '%s: %s' % (v['obligation'], ' '.join(str(h) for h in v['hist'][:12]))
            path = core.write_replay('C19', fkey, {'obligation': v['obligation'], 'history': [str(h) for h in v['hist']], 'model': v['model'], 'what': v['what']})
            repro = True; nat = None
            if label == 'connector':
                case = case_of_violation(v)
                if case is not None:
                    # replay the solver's counterexample against the real connector (native build) and judge that trace independently
                    nat = run_native([conn_line(case)])[0]; bad = judge_conn(case, nat)
                    repro = bool(bad)
                    path = core.write_replay('C19', fkey, {'obligation': v['obligation'], 'history': [str(h) for h in v['hist']], 'model': v['model'], 'what': v['what'], 'line': conn_line(case), 'case': case, 'native_trace': nat, 'native_verdict': bad})
            elif label.startswith('tls-connector'):
                host = v['hist'][0].split('=', 1)[1]; ans = [h.split('=')[1] for h in v['hist'][1:]]
                line = 'tls flavour=%s host=%s | %s' % (ctx.flavour, host.replace(' ', '+'), ' '.join(ans))
                nat = run_native([line])[0]; bad = judge_tls(ctx.flavour, host, ans, nat); repro = bool(bad)
                path = core.write_replay('C19', fkey, {'obligation': v['obligation'], 'history': [str(h) for h in v['hist']], 'what': v['what'], 'line': line, 'tls': [ctx.flavour, host, ans], 'native_trace': nat, 'native_verdict': bad})
            rep.violation(fkey, '%s -- %s; %s%s' % (v['obligation'], v['what'], v['hist'], ('; native trace: ' + nat) if nat else ' (default-lookup arm: no native replay, the counterexample is a path of the encoded MIR)'), replay=path, reproduced=repro)
    rep.bounds.update({'address_lists': '0..3 pre-set addresses, 0..2 resolved addresses', 'per_address_outcomes': 'Pending (budget 2) / ok / error, solver-chosen', 'ports': 'symbolic u16',
                       'hosts': 'plain name, IPv4 literal, IPv6 literal; with/without a port of its own', 'wall_s': round(time.time() - t0, 1)})


def replay_file(path):
    d = json.load(open(path))
    if 'line' not in d: print('engine-only counterexample (default-lookup arm):', d.get('history')); return 1
    nat = run_native([d['line']])[0]
    print('case:', d['line']); print('native trace:', nat)
    bad = judge_conn(d['case'], nat) if 'case' in d else judge_tls(d['tls'][0], d['tls'][1], d['tls'][2], nat)
    print('violated:', bad)
    return 1 if bad else 0
