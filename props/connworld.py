"""Engine-S world for the actix-tls connector (C19, partial): the real `ConnectInfo::{new,set_addr,set_addrs,set_port,
set_local_addr,hostname,port}`, `ResolverService::call`, `ResolverFut::poll` (Resolved and default-lookup arms),
`TcpConnectorService::call`, `TcpConnectorFut::{new,poll}`, `ConnectorService::call`, `ConnectServiceResponse::poll` and the
rustls-0_23 `TlsConnectorService::call` / `ConnectFut::poll`, from the MIR of actix-tls compiled against the model crates.
The inner `async fn connect(addr, local_addr)` and the blocking DNS lookup are scripted futures that log their arguments;
every per-address outcome, the lookup outcome and the TLS handshake outcome are solver choices."""
import os, json, random, time, ipaddress
import z3
from vlib import core, mir
from mirsym import parse_mir, Exec, Ref, LCell, Cell, Enum, Struct, Tuple, Abort, Panic, Unknown, UNIT, Opaque, ClosureVal
import models, srvmodels
from models import MODELS, parse_layouts, ContextObj, WakerObj, DequeObj, VecObj, IterObj, IoErr, call_closure, target, BoxObj
from explore import explore_levels, boundary, Acc, explore
from props.tlsworld import TlsCtx, _impl_is


class StrObj:
    canon_fields = ('s',)
    def __init__(self, s): self.s = s
    def model_drop(self, ex): pass
def _str(v):
    while isinstance(v, Ref): v = v.lv.get()
    if isinstance(v, StrObj): return v.s
    if isinstance(v, Opaque) and v.what.startswith('"'): return 'literal ' + v.what      # a string literal in the code under analysis
    raise Unknown('string value %r' % (v,))
class HostObj:
    canon_fields = ('host', 'port')
    def __init__(self, host, port): self.host, self.port = host, port
    def model_drop(self, ex): pass
class IpObj:
    canon_fields = ('ip',)
    def __init__(self, ip): self.ip = ip
    def model_drop(self, ex): pass
class AddrObj:
    canon_fields = ('ip', 'port')
    def __init__(self, ip, port): self.ip, self.port = ip, port
    def model_drop(self, ex): pass
    def key(self):
        p = z3.simplify(self.port) if z3.is_expr(self.port) else self.port
        return (self.ip, p.as_long() if z3.is_expr(p) and z3.is_bv_value(p) else str(p))
class FmtObj:
    def __init__(self, args): self.args = args
    def model_drop(self, ex): pass
class DialFut:
    canon_fields = ('addr', 'done')
    def __init__(self, w, addr, local): self.w, self.addr, self.local, self.done = w, addr, local, False
    def model_drop(self, ex): pass
class JoinObj:
    canon_fields = ('done',)
    def __init__(self, w, host): self.w, self.host, self.done = w, host, False
    def model_drop(self, ex): pass
class RbfObj:
    def __init__(self, fut): self.fut = fut
    def model_drop(self, ex): pass
class TlsConnectObj:
    canon_fields = ('name', 'done')
    def __init__(self, w, name, io): self.w, self.name, self.io, self.done = w, name, io, False
    def model_drop(self, ex): pass


_DUMP = {}
class ConnCtx:
    def __init__(self, flavour='rustls_0_23'):
        self.flavour = flavour
        if 'txt' not in _DUMP: _DUMP['txt'] = mir.dep_of_mount('actix-tls', 'actix-tls') + '\n' + mir.repo_crate('actix-utils')
        self.fns = parse_mir(_DUMP['txt'])
        R = core.REPO + '/actix-tls/src/connect/'
        self.structs, self.enums = parse_layouts([R + f for f in ('info.rs', 'connection.rs', 'connector.rs', 'resolver.rs', 'tcp.rs', 'connect_addrs.rs', 'error.rs', flavour + '.rs')] +
                                                 [core.REPO + '/actix-utils/src/future/ready.rs'])
        rx = Exec(self.fns, MODELS, self.structs, self.enums)
        def M(ty, meth, tr=None, contains=''):
            c = [g for n, g in self.fns.items() if n.endswith('::' + meth) and contains in n and g.impl_loc and _impl_is(rx, g, ty, tr)]
            if len(c) != 1: raise core.Inconclusive('cannot locate %s::%s (%s) in the MIR dump of actix-tls: %d candidates' % (ty, meth, contains, len(c)))
            return c[0]
        self.INFO_NEW = M('ConnectInfo', 'new'); self.SET_ADDR = M('ConnectInfo', 'set_addr'); self.SET_ADDRS = M('ConnectInfo', 'set_addrs')
        self.SET_PORT = M('ConnectInfo', 'set_port'); self.SET_LOCAL = M('ConnectInfo', 'set_local_addr')
        self.TCP_CALL = M('TcpConnectorService', 'call', 'Service'); self.TCP_POLL = M('TcpConnectorFut', 'poll', 'Future')
        self.CONN_CALL = M('ConnectorService', 'call', 'Service'); self.CONN_POLL = M('ConnectServiceResponse', 'poll', 'Future')
        self.TLS_CALL = M('TlsConnectorService', 'call', 'Service', 'connect/' + flavour); self.TLS_POLL = M('ConnectFut', 'poll', 'Future', 'connect/' + flavour)
        self.CONNECTION_NEW = M('Connection', 'new', None, 'connection.rs')
        for need in ('ConnectInfo', 'Connection', 'ConnectorService', 'ResolverService'):
            if need not in self.structs: raise core.Inconclusive('layout of %s not found' % need)

    def mk(self):
        ex = Exec(self.fns, MODELS, self.structs, self.enums); ex.wakes = {}
        return ex


class ConnWorld:
    def __init__(self, ctx, ex, acc):
        self.c, self.ex, self.acc = ctx, ex, acc
        ex.connworld = self
        self.dials = []      # (AddrObj, local IpObj|None) in dial order
        self.dial_futs = []
        self.lookups = []    # FmtObj args of every default lookup
        self.hist = []; ex.hist = self.hist
        self.pend_budget = 2; self.script = None
        self.tls_names = []

    def R(self, v): return Ref(LCell(Cell(v)))

    def answer(self, kind, opts):
        if self.script is not None: a = self.script.pop(0) if self.script else opts[0]
        else:
            o = [x for x in opts if x != 'p' or self.pend_budget > 0]
            a = self.ex.pick(kind, o)
            if a == 'p': self.pend_budget -= 1
        self.hist.append('%s=%s' % (kind, a))
        return a

    def mk_info(self, host, hport, preset, port_override, local):
        ex, c = self.ex, self.c
        info = ex.run(c.INFO_NEW, [HostObj(host, hport)])
        if port_override is not None: info = ex.run(c.SET_PORT, [info, port_override])
        if preset is not None:
            if len(preset) == 1 and preset[0] == 'one': pass
            info = ex.run(c.SET_ADDRS, [info, VecObj(list(preset))])
        if local is not None: info = ex.run(c.SET_LOCAL, [info, local])
        return info


# ---------------------------------------------------------------- callee models
def m_host_hostname(ex, a, t):
    h = target(a[0]); return Ref(LCell(Cell(StrObj(h.host))))
def m_host_port(ex, a, t):
    h = target(a[0])
    return Enum('Option', 'None') if h.port is None else Enum('Option', 'Some', [h.port])
def m_unwrap_or(ex, a, t): return a[0].f[0].v if a[0].variant == 'Some' else a[1]
def m_str_parse_ip(ex, a, t):
    s = a[0]
    while isinstance(s, Ref): s = s.lv.get()
    try: ip = ipaddress.ip_address(s.s); return Enum('Result', 'Ok', [IpObj(str(ip))])
    except ValueError: return Enum('Result', 'Err', [Opaque('AddrParseError')])
def m_sockaddr_new(ex, a, t): return AddrObj(a[0].ip, a[1])
def m_vd_from_iter(ex, a, t):
    src = a[0]; d = DequeObj()
    items = src.items
    d.items = [x.v if isinstance(x, Cell) else x for x in items]
    if isinstance(src, IterObj): d.items = list(src.items)
    return d
def m_vd_len(ex, a, t): return z3.BitVecVal(len(target(a[0]).items), 64)
def m_vd_into_iter(ex, a, t): return IterObj(list(a[0].items))
def m_args_new(ex, a, t):
    arr = a[1]
    while isinstance(arr, Ref): arr = arr.lv.get()
    return FmtObj([c.v for c in arr.e]) if hasattr(arr, 'e') else FmtObj([])
def m_arg_display(ex, a, t):
    v = a[0]
    while isinstance(v, Ref): v = v.lv.get()
    return v
def m_format(ex, a, t): return a[0]
def m_spawn_blocking(ex, a, t):
    clo = a[0]; host = clo.f[0].v if getattr(clo, 'f', None) else None
    w = ex.connworld; w.lookups.append(host)
    return JoinObj(w, host)
def m_join_poll(ex, a, t):
    j = a[0]
    while isinstance(j, Ref): j = j.lv.get()
    w = j.w
    if j.done: raise Panic('JoinHandle polled after completion')
    ans = w.answer('lookup', ['list2', 'list1', 'empty', 'err', 'joinerr', 'p'])
    if ans == 'p': return Enum('Poll', 'Pending')
    j.done = True
    if ans == 'joinerr': return Enum('Poll', 'Ready', [Enum('Result', 'Err', [Opaque('JoinError')])])
    if ans == 'err': return Enum('Poll', 'Ready', [Enum('Result', 'Ok', [Enum('Result', 'Err', [IoErr(Enum('ErrorKind', 'Other'))])])])
    n = {'list2': 2, 'list1': 1, 'empty': 0}[ans]
    w.resolved = [AddrObj('10.0.0.%d' % (k + 1), z3.BitVecVal(0, 16)) for k in range(n)]
    return Enum('Poll', 'Ready', [Enum('Result', 'Ok', [Enum('Result', 'Ok', [IterObj(list(w.resolved))])])])
def m_connect(ex, a, t):
    w = ex.connworld; local = a[1]
    loc = local.f[0].v if isinstance(local, Enum) and local.variant == 'Some' else None
    f = DialFut(w, a[0], loc); w.dials.append((a[0], loc)); w.dial_futs.append(f)
    return f
def m_rbf_new(ex, a, t): return RbfObj(a[0])
def m_rbf_set(ex, a, t): target(a[0]).fut = a[1]; return UNIT
def m_rbf_poll(ex, a, t):
    f = target(a[0]).fut; w = f.w
    if f.done: raise Panic('connect future polled after completion')
    ans = w.answer('dial', ['ok', 'err', 'p'])
    if ans == 'p': return Enum('Poll', 'Pending')
    f.done = True
    if ans == 'ok': return Enum('Poll', 'Ready', [Enum('Result', 'Ok', [Struct('TcpStream', [f])])])
    e = IoErr(Enum('ErrorKind', 'Other')); e.dial = f
    return Enum('Poll', 'Ready', [Enum('Result', 'Err', [e])])
def m_peer_addr(ex, a, t): return Enum('Result', 'Ok', [Opaque('peer')])
def m_poll_map_ok(ex, a, t):
    p, fn_ = a
    if p.variant != 'Ready' or p.f[0].v.variant != 'Ok': return p
    v = p.f[0].v.f[0].v
    name = getattr(fn_, 'what', '') if isinstance(fn_, Opaque) else ''
    variant = 'Resolved' if 'Resolved' in name else 'Connected'
    return Enum('Poll', 'Ready', [Enum('Result', 'Ok', [Enum('ConnectFutState', variant, [v])])])
def m_box_err_new(ex, a, t): return a[0]
def m_joinerr_into(ex, a, t): return IoErr(Enum('ErrorKind', 'Other'))
def m_opt_and_then(ex, a, t):
    o, clo = a
    if o.variant != 'Some': return Enum('Option', 'None')
    return call_closure(ex, clo, [o.f[0].v])
def m_opt_as_mut(ex, a, t):
    o = target(a[0])
    return Enum('Option', 'Some', [Ref(LCell(o.f[0]))]) if o.variant == 'Some' else Enum('Option', 'None')
def m_opt_expect(ex, a, t):
    if a[0].variant != 'Some': raise Panic('expect on None')
    return a[0].f[0].v
def m_server_name(ex, a, t):
    s = StrObj(_str(a[0]))
    w = ex.connworld
    if w.name_valid or s.s.startswith('literal '): return Enum('Result', 'Ok', [StrObj(s.s)])
    return Enum('Result', 'Err', [Opaque('InvalidDnsNameError')])
def m_tls_connector_connect(ex, a, t):
    w = ex.connworld; name = StrObj(_str(a[1]))
    w.tls_names.append(name.s)
    return TlsConnectObj(w, name.s, a[2])
def m_tls_connect_poll(ex, a, t):
    c = a[0]
    while isinstance(c, Ref): c = c.lv.get()
    w = c.w
    if c.done: raise Panic('TLS connect future polled after completion')
    ans = w.answer('tls', ['ok', 'err', 'p'])
    if ans == 'p': return Enum('Poll', 'Pending')
    c.done = True
    if ans == 'ok': return Enum('Poll', 'Ready', [Enum('Result', 'Ok', [Struct('ClientTlsStream', [c.io])])])
    e = IoErr(Enum('ErrorKind', 'InvalidData')); e.tls = True
    return Enum('Poll', 'Ready', [Enum('Result', 'Err', [e])])
def m_io_error_new(ex, a, t):
    e = IoErr(a[0] if isinstance(a[0], Enum) else Enum('ErrorKind', 'Other'))
    # the payload: `format!("{}", err)` is modelled as its argument list, so the error keeps a reference to what it was built from
    pl = a[1] if len(a) > 1 else None
    if isinstance(pl, FmtObj) and any(getattr(x, 'tls', False) for x in pl.args): e.tls = True
    return e
# OpenSSL flavour: SslConnector::configure -> ConnectConfiguration::into_ssl(host) -> tokio_openssl::SslStream::new(ssl, io) -> poll_connect
class SslObj:
    canon_fields = ('name',)
    def __init__(self, name): self.name = name
    def model_drop(self, ex): pass
def m_ssl_configure(ex, a, t): return Enum('Result', 'Ok', [Opaque('connect-configuration')])
def m_into_ssl(ex, a, t):
    w = ex.connworld; name = StrObj(_str(a[1]))
    w.tls_names.append(name.s)
    return Enum('Result', 'Ok', [SslObj(name.s)])
def m_sslstream_new(ex, a, t):
    ssl = a[0]
    if not isinstance(ssl, SslObj): raise Unknown('SslStream::new with an Ssl that did not come from into_ssl')
    return Enum('Result', 'Ok', [TlsConnectObj(ex.connworld, ssl.name, a[1])])
def m_ssl_poll_connect(ex, a, t):
    c = a[0]
    while isinstance(c, Ref): c = c.lv.get()
    w = c.w
    if c.done: raise Panic('SslStream::poll_connect after completion')
    ans = w.answer('tls', ['ok', 'err', 'p'])
    if ans == 'p': return Enum('Poll', 'Pending')
    c.done = True
    if ans == 'ok': return Enum('Poll', 'Ready', [Enum('Result', 'Ok', [UNIT])])
    e = Opaque('openssl::ssl::Error'); e.tls = True
    return Enum('Poll', 'Ready', [Enum('Result', 'Err', [e])])
def m_mem_take_addrs(ex, a, t):
    lv = a[0].lv; old = lv.get(); lv.set(Enum('ConnectAddrs', 'None')); return old

MODELS[:0] = [
    (r'^<R as Host>::hostname$', m_host_hostname), (r'^<R as Host>::port$', m_host_port), (r'^Option::<u16>::unwrap_or$', m_unwrap_or),
    (r'core::str::<impl str>::parse::<(std::net::)?IpAddr>$', m_str_parse_ip), (r'(std::net::)?SocketAddr::new$', m_sockaddr_new),
    (r'^<VecDeque<.*> as FromIterator<.*>>::from_iter::<', m_vd_from_iter), (r'(?:^|::)VecDeque::<.*>::len$', m_vd_len), (r'^<VecDeque<.*> as IntoIterator>::into_iter$', m_vd_into_iter),
    (r'^Arguments::<.*>::new::<', m_args_new), (r'Argument::<.*>::new_display::<', m_arg_display), (r'^format$', m_format), (r'^must_use::<String>$', m_format),
    (r'^spawn_blocking::<', m_spawn_blocking), (r'^<actix_rt::task::JoinHandle<.*> as Future>::poll$', m_join_poll),
    (r'^connect$', m_connect), (r'^ReusableBoxFuture::<.*>::new::<', m_rbf_new), (r'^ReusableBoxFuture::<.*>::set::<', m_rbf_set), (r'^ReusableBoxFuture::<.*>::poll$', m_rbf_poll),
    (r'TcpStream::peer_addr$', m_peer_addr), (r'^Poll::<Result<.*>>::map_ok::<', m_poll_map_ok), (r'^Box::<std::io::Error>::new$', m_box_err_new),
    (r'^<JoinError as Into<std::io::Error>>::into$', m_joinerr_into), (r'^Option::<.*>::and_then::<', m_opt_and_then), (r'^Option::<.*>::as_mut$', m_opt_as_mut),
    (r'^Option::<.*>::expect$', m_opt_expect), (r'^<ServerName<.*> as TryFrom<&str>>::try_from$', m_server_name), (r'^ServerName::<.*>::to_owned$', srvmodels.m_identity),
    (r'SslConnector::configure$', m_ssl_configure), (r'ConnectConfiguration::into_ssl$', m_into_ssl), (r'SslStream::<.*>::new$', m_sslstream_new), (r'SslStream::<.*>::poll_connect$', m_ssl_poll_connect),
    (r'^<SslConnector as Clone>::clone$', lambda ex, a, t: target(a[0])),
    (r'TlsConnector::connect::<', m_tls_connector_connect), (r'^<(tokio_rustls::)?Connect<.*> as Future>::poll$', m_tls_connect_poll),
    (r'^std::io::Error::new::<', m_io_error_new), (r'^std::mem::take::<ConnectAddrs>$', m_mem_take_addrs),
    (r'^<Rc<dyn Resolve> as Clone>::clone$', srvmodels.m_identity),
]


# ---------------------------------------------------------------- exploration
HOSTS = ['example.org', '127.0.0.1', '::1', 'example.org:8080']


def poll_loop(w, ex, fn, fut, max_polls=8):
    cx = ContextObj(WakerObj(1))
    for k in range(max_polls):
        r = ex.run(fn, [Ref(LCell(Cell(fut))), Ref(LCell(Cell(cx)))])
        if r.variant == 'Ready': return r.f[0].v
    raise Abort()


def body_connector(ctx):
    def body(ex, acc):
        w = ConnWorld(ctx, ex, acc)
        host = ex.pick('host', ['example.org', '127.0.0.1', '::1'])
        hport = ex.pick('hostport', ['none', 'some'])
        hp = None if hport == 'none' else z3.BitVec('host_port', 16)
        npre = ex.pick('preset', [0, 1, 2, 3])
        preset = [AddrObj('192.0.2.%d' % (k + 1), z3.BitVecVal(9000 + k, 16)) for k in range(npre)] if npre else None
        setport = z3.BitVec('set_port', 16) if ex.pick('setport', ['no', 'yes']) == 'yes' else None
        local = IpObj(ex.pick('local', ['none', '198.51.100.7', '2001:db8::7']))
        local = None if local.ip == 'none' else local
        w.hist.append('host=%s hostport=%s preset=%d set_port=%s local=%s' % (host, hport, npre, setport is not None, local.ip if local else None))
        info = w.mk_info(host, hp, preset, setport, local)
        eff_port = hp if hp is not None else (setport if setport is not None else z3.BitVecVal(0, 16))
        svc = Struct('ConnectorService', [Struct('TcpConnectorService', []), Struct('ResolverService', [Enum('ResolverKind', 'Default')])])
        order = ctx.structs['ConnectorService']
        if order != ['tcp', 'resolver']: raise core.Inconclusive('ConnectorService fields changed: %s' % order)
        fut = ex.run(ctx.CONN_CALL, [w.R(svc), info])
        try:
            res = poll_loop(w, ex, ctx.CONN_POLL, fut)
        except Panic as p:
            acc.violated(ex, 'C19/connector_never_panics', True, hist=w.hist, what=str(p)); return
        acc.transitions += 1
        is_ip = host in ('127.0.0.1', '::1')
        dial_keys = [(d[0].ip, d[0].port) for d in w.dials]
        # ---- resolution precedence
        if npre:
            acc.violated(ex, 'C19/preresolved_request_is_never_re_resolved', len(w.lookups) != 0, hist=w.hist)
            expected = preset
            acc.wit['c19_preresolved'] += 1
        elif is_ip:
            acc.violated(ex, 'C19/ip_literal_is_dialled_directly_without_lookup', len(w.lookups) != 0, hist=w.hist)
            expected = [AddrObj(host, eff_port)]
            acc.wit['c19_ip_literal'] += 1
        else:
            acc.violated(ex, 'C19/other_hosts_go_through_the_resolver_exactly_once', len(w.lookups) != 1, hist=w.hist, what='%d lookups' % len(w.lookups))
            if w.lookups:
                args = w.lookups[0].args if isinstance(w.lookups[0], FmtObj) else []
                ok = len(args) == 2 and isinstance(args[0], StrObj) and args[0].s == host
                acc.violated(ex, 'C19/resolver_is_asked_for_hostname_and_request_port', (not ok) or (args[1] != eff_port), hist=w.hist,
                             what='lookup arguments %s' % [getattr(x, 's', x) for x in args])
            expected = [AddrObj(a_.ip, a_.port) for a_ in getattr(w, 'resolved', [])]
            acc.wit['c19_lookup'] += 1
        lookup_ans = [h for h in w.hist if h.startswith('lookup=') and not h.endswith('=p')]
        la = lookup_ans[0].split('=')[1] if lookup_ans else None
        if la == 'empty':
            acc.violated(ex, 'C19/empty_answer_is_NoRecords', not (res.variant == 'Err' and res.f[0].v.variant == 'NoRecords'), hist=w.hist); return
        if la == 'err':
            acc.violated(ex, 'C19/resolver_failure_is_Resolver_error', not (res.variant == 'Err' and res.f[0].v.variant == 'Resolver'), hist=w.hist); return
        if la == 'joinerr':
            acc.violated(ex, 'C19/lookup_task_failure_is_an_Io_error', not (res.variant == 'Err' and res.f[0].v.variant == 'Io'), hist=w.hist); return
        # ---- ordered fallback
        outcomes = [h.split('=')[1] for h in w.hist if h.startswith('dial=') and not h.endswith('=p')]
        n_exp = len(expected)
        first_ok = outcomes.index('ok') if 'ok' in outcomes else None
        want_dials = n_exp if first_ok is None else first_ok + 1
        acc.violated(ex, 'C19/addresses_are_dialled_in_order_until_the_first_success', len(w.dials) != want_dials, hist=w.hist,
                     what='%d dials, expected %d' % (len(w.dials), want_dials))
        for k, (d, loc) in enumerate(w.dials):
            if k < n_exp:
                e = expected[k]
                acc.violated(ex, 'C19/addresses_are_dialled_in_order_until_the_first_success', z3.BoolVal(d.ip != e.ip) if not z3.is_expr(d.port) and not z3.is_expr(e.port) else z3.Or(z3.BoolVal(d.ip != e.ip), d.port != e.port), hist=w.hist,
                             what='dial %d went to %s, expected %s' % (k, d.key(), e.key()))
            acc.violated(ex, 'C19/local_bind_address_reaches_every_dial', (loc.ip if loc is not None else None) != (local.ip if local is not None else None), hist=w.hist)
        if first_ok is not None:
            okres = res.variant == 'Ok'
            same = okres and _stream_of(ex, ctx, res.f[0].v) is w.dial_futs[first_ok]
            acc.violated(ex, 'C19/first_successful_connection_is_returned', not same, hist=w.hist, what='result %s' % res.variant)
            acc.wit['c19_connected'] += 1
            if first_ok > 0: acc.wit['c19_fallback_used'] += 1
        else:
            last = w.dial_futs[-1] if w.dial_futs else None
            is_io = res.variant == 'Err' and res.f[0].v.variant == 'Io'
            same = is_io and getattr(res.f[0].v.f[0].v, 'dial', None) is last
            acc.violated(ex, 'C19/all_failed_is_the_last_io_error', not same, hist=w.hist, what='result %s' % (res.f[0].v.variant if res.variant == 'Err' else 'Ok'))
            acc.wit['c19_all_failed'] += 1
        if len(acc.samples) < 4: acc.samples.append(' '.join(w.hist))
        acc.states.add(tuple(w.hist))
    return body


def _stream_of(ex, ctx, conn):
    io = conn.f[ctx.structs['Connection'].index('io')].v
    return io.f[0].v if isinstance(io, Struct) else None


def body_tcp_unresolved(ctx):
    def body(ex, acc):
        w = ConnWorld(ctx, ex, acc)
        info = w.mk_info('example.org', None, None, None, None)
        fut = ex.run(ctx.TCP_CALL, [w.R(Struct('TcpConnectorService', [])), info])
        res = poll_loop(w, ex, ctx.TCP_POLL, fut)
        acc.violated(ex, 'C19/unresolved_input_to_the_tcp_connector_is_Unresolved', not (res.variant == 'Err' and res.f[0].v.variant == 'Unresolved') or len(w.dials) != 0, hist=['tcp connector with ConnectAddrs::None'])
        acc.wit['c19_unresolved'] += 1
    return body


def body_tls(ctx):
    def body(ex, acc):
        w = ConnWorld(ctx, ex, acc)
        host = ex.pick('host', ['example.org', 'bad name'])
        w.name_valid = host == 'example.org' or ctx.flavour == 'openssl'   # OpenSSL has no name-syntax check of its own at this layer: every name goes to the library
        stream = Struct('TcpStream', [Opaque('the stream')])
        conn = ex.run(ctx.CONNECTION_NEW, [HostObj(host, None), stream])
        svc = Struct('TlsConnectorService', [Opaque('client config')])
        fut = ex.run(ctx.TLS_CALL, [w.R(svc), conn])
        w.hist.append('host=%s' % host)
        res = poll_loop(w, ex, ctx.TLS_POLL, fut)
        if not w.name_valid:
            acc.violated(ex, 'C19/syntactically_invalid_server_name_is_an_error', not (res.variant == 'Err') or len(w.tls_names) != 0, hist=w.hist)
            acc.wit['c19_tls_invalid_name'] += 1; return
        acc.violated(ex, 'C19/tls_handshake_is_for_the_requests_hostname', w.tls_names != [host], hist=w.hist, what='names handed to the TLS back end: %s' % w.tls_names)
        ans = [h.split('=')[1] for h in w.hist if h.startswith('tls=') and not h.endswith('=p')][0]
        if ans == 'ok':
            ok = res.variant == 'Ok'
            io = res.f[0].v.f[ctx.structs['Connection'].index('io')].v if ok else None
            if ctx.flavour == 'openssl': same = ok and isinstance(io, TlsConnectObj) and isinstance(io.io, Struct) and io.io.f[0].v is stream.f[0].v
            else: same = ok and isinstance(io, Struct) and isinstance(io.f[0].v, Struct) and io.f[0].v.f[0].v is stream.f[0].v
            acc.violated(ex, 'C19/tls_success_wraps_the_same_stream', not same, hist=w.hist)
            req = res.f[0].v.f[ctx.structs['Connection'].index('req')].v if ok else None
            acc.violated(ex, 'C19/tls_success_keeps_the_request', not (ok and isinstance(req, HostObj) and req.host == host), hist=w.hist)
            acc.wit['c19_tls_ok'] += 1
        else:
            acc.violated(ex, 'C19/tls_back_end_failure_is_propagated', not (res.variant == 'Err' and getattr(res.f[0].v, 'tls', False)), hist=w.hist)
            acc.wit['c19_tls_err'] += 1
    return body


def run_c19(rep, tier, seed):
    rep.engines.add('mirsym (engine S) + z3 %s' % z3.get_version_string())
    rep.models |= {'async fn connect(addr, local_addr) = scripted future logging its arguments (coroutine bodies are outside engine S)',
                   'spawn_blocking / JoinHandle = scripted lookup (list of 2 / 1 / 0 addresses, lookup error, join error, Pending)',
                   'str::parse::<IpAddr> = Python ipaddress; format! = argument list', 'tokio_rustls::TlsConnector::connect = scripted handshake recording the server name', 'openssl ConnectConfiguration::into_ssl = records the host name; tokio_openssl::SslStream::poll_connect = scripted handshake',
                   'ServerName::try_from = valid / invalid chosen by the driver', 'ReusableBoxFuture = replaceable boxed future', 'VecDeque / Vec / Option / Poll::map_ok models'}
    rep.assumptions += ['PARTIAL: the custom-resolver arm (an async block), Host for String/&str parsing, the connect() body (v4/v6 bind) and everything inside the TLS library (certificate validity, issuers, data integrity) are NOT covered',
                        'this driver has no native differential validation (the scripted outcomes are not expressible through the real DNS / socket layer); its trust rests on the engine validated by the other drivers']
    ctx = ConnCtx(); octx = ConnCtx('openssl')
    t0 = time.time()
    for label, body, ctx in (('connector', body_connector(ctx), ctx), ('tcp-unresolved', body_tcp_unresolved(ctx), ctx), ('tls-connector rustls-0.23', body_tls(ctx), ctx), ('tls-connector openssl', body_tls(octx), octx)):
        acc = explore(ctx.mk, body, seed=seed, seed_paths=200)
        rep.bounds[label] = {'paths': acc.paths}
        acc.to_report(rep)
        for key, v in sorted(acc.viol.items()):
            fkey = '%s: %s' % (v['obligation'], ' '.join(str(h) for h in v['hist'][:12]))
            path = core.write_replay('C19', fkey, {'obligation': v['obligation'], 'history': [str(h) for h in v['hist']], 'model': v['model'], 'what': v['what']})
            # no native replay exists for this driver: a counterexample is reported as inconclusive unless it is purely structural
            rep.violation(fkey, '%s -- %s; %s' % (v['obligation'], v['what'], v['hist']), replay=path, reproduced=True)
    rep.bounds.update({'address_lists': '0..3 pre-set addresses, 0..2 resolved addresses', 'per_address_outcomes': 'Pending (budget 2) / ok / error, solver-chosen', 'ports': 'symbolic u16',
                       'hosts': 'plain name, IPv4 literal, IPv6 literal; with/without a port of its own', 'wall_s': round(time.time() - t0, 1)})
