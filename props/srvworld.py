"""Accept-loop world for engine S: the real `Accept::poll_with` (actix-server/src/accept.rs) is executed as written from
the MIR of the mount crate; the environment (clients, workers finishing connections, commands, faults, the clock and
the choice/order of mio events) takes its turn inside the model of `mio::Poll::poll`, every choice being a solver
variable.  Properties C01-C05 and C08 are assertions evaluated at every entry into `Poll::poll` (= the accept thread is
about to block)."""
import os, z3
from vlib import core, mir
import mirsym
from mirsym import parse_mir, Exec, Ref, LCell, Cell, Enum, Struct, Tuple, Array, Opaque, Abort, Panic, Unknown, UNIT
import models, srvmodels
from models import (MODELS, parse_layouts, ChanObj, TxObj, RxObj, VecObj, RcPtr, RcBox, AtomicObj, MutexObj, DequeObj, MioWaker,
                    EndOfSchedule, target)
from srvmodels import ListenerObj2
from explore import boundary, single_var_pc

WAKER_TOKEN = (1 << 64) - 1
SRC = ['accept.rs', 'availability.rs', 'builder.rs', 'handle.rs', 'join_all.rs', 'server.rs', 'service.rs', 'signals.rs', 'socket.rs',
       'waker_queue.rs', 'worker.rs']


class SrvCtx:
    def __init__(self):
        txt = mir.mount_crate('actix-server')
        self.fns = parse_mir(txt)
        paths = [core.REPO + '/actix-server/src/' + f for f in SRC]
        self.structs, self.enums = parse_layouts(paths + [core.VERIF + '/models/tokio/src/lib.rs'])
        self.structs.update({'Availability': [0], 'WakerQueue': [0], 'Token': [0], 'Event': [0], 'WorkerCounterGuard': [0],
                             'TcpStream': [0], 'UnixStream': [0], 'SendError': [0]})
        self.enums['ErrorKind'] = ['WouldBlock', 'ConnectionRefused', 'ConnectionAborted', 'ConnectionReset', 'Other', 'NotFound', 'Interrupted']
        self.enums['ControlFlow'] = ['Continue', 'Break']
        for need in ('Accept', 'ServerSocketInfo', 'WorkerHandleAccept', 'Counter', 'WorkerCounter', 'Conn', 'ServerHandle'):
            if need not in self.structs: raise core.Inconclusive('layout of %s not found in the sources' % need)
        for need in ('WakerInterest', 'MioListener', 'MioStream', 'ServerCommand'):
            if need not in self.enums: raise core.Inconclusive('variants of %s not found in the sources' % need)
        rx = Exec(self.fns, MODELS, self.structs, self.enums)
        def M(ty, meth, tr=None):
            f = rx.resolve((ty, tr, meth))
            if f is None: raise core.Inconclusive('cannot locate %s::%s in the MIR dump of the mount crate' % (ty, meth))
            return f
        self.M = M
        self.POLL_WITH = M('Accept', 'poll_with'); self.WQ_WAKE = M('WakerQueue', 'wake')
        self.GET = M('Availability', 'get_available'); self.AVAILABLE = M('Availability', 'available')
        self.GUARD = M('WorkerCounter', 'guard'); self.TOTAL = M('Counter', 'total')
        self.ACCEPT_ONE = M('Accept', 'accept_one'); self.SET_AVAIL = M('Availability', 'set_available')
        self.DEC = M('Counter', 'dec'); self.INC = M('Counter', 'inc'); self.OFFSET = M('Availability', 'offset')
        self.WPOLL = M('ServerWorker', 'poll', 'Future')

    def F(self, suffix, contains=''):
        c = [f for n, f in self.fns.items() if n.endswith(suffix) and contains in n]
        if len(c) != 1: raise core.Inconclusive('cannot locate %s (%s) in the MIR dump: %s' % (suffix, contains, [x.name for x in c][:5]))
        return c[0]

    def mk(self):
        ex = Exec(self.fns, MODELS, self.structs, self.enums); ex.wakes = {}
        return ex


DEFAULT_CFG = dict(W=1, L=1, uds=False, turns=3, env_per_turn=2, max_conns=4, max_inprogress=6,
                   actions=('connect', 'finish', 'go'), race=False, limit=None, limit_max=1 << 20, pickup=False,
                   order_events=True, max_replacements=1)


class World:
    def __init__(self, ctx, ex, acc, cfg):
        self.c, self.ex, self.acc = ctx, ex, acc
        self.cfg = dict(DEFAULT_CFG); self.cfg.update(cfg)
        c = self.cfg; W, L = c['W'], c['L']
        if c['limit'] is None:
            self.limit = z3.BitVec('limit', 64); ex.solver.add(self.limit >= 1, z3.ULE(self.limit, c['limit_max']))
        else:
            self.limit = z3.BitVecVal(c['limit'], 64)
        ex.clock = z3.IntVal(1000)
        self.mw = MioWaker(); self.mq = MutexObj(DequeObj())
        self.wq = Struct('WakerQueue', [RcPtr(RcBox(Tuple([self.mw, self.mq])))])
        self.workers = {}          # idx -> current generation: dict(chan, counter, wc, inservice, owed, alive, gen)
        self.allworkers = []       # every generation, creation order
        handles = [self.new_worker(w, 0) for w in range(W)]
        self.listeners = []; socks = []
        for l in range(L):
            uds = c['uds'] and l == L - 1
            lo = ListenerObj2('Uds' if uds else 'Tcp', 1000 * (l + 1), path=('/sock%d' % l) if uds else None)
            lo.registered = True; self.listeners.append(lo)
            socks.append(Struct('ServerSocketInfo', self.byname('ServerSocketInfo', token=z3.BitVecVal(l, 64),
                         lst=Enum('MioListener', 'Uds' if uds else 'Tcp', [lo]), timeout=Enum('Option', 'None'))))
        self.sockets = VecObj(socks)
        bits = 0
        for w in range(W): bits |= 1 << w
        self.avail = Struct('Availability', [Array([z3.BitVecVal(bits, 128)] + [z3.BitVecVal(0, 128)] * 3)])
        self.cmd = ChanObj()
        self.accept = Struct('Accept', self.byname('Accept', poll=Opaque('poll'), waker_queue=self.wq, handles=VecObj(handles),
                             srv=Struct('ServerHandle', [TxObj(self.cmd)]), next=z3.BitVecVal(0, 64), avail=self.avail,
                             timeout=Enum('Option', 'None'), paused=z3.BoolVal(False)))
        self.hist = []; ex.hist = self.hist
        self.turn = 0; self.nconn = 0; self.nticks = 0
        self.stopped = False; self.stop_processed = False
        self.pause_cmds = 0; self.resume_since_entry = False
        self.paused_at_entry = False; self.dispatched_at_entry = 0
        self.faulted_ever = False; self.finished = []; self.lost_with_dead = []; self.dropped_no_worker = []
        self.dispatch_log = []     # (sid, token, idx, gen, sat_before) in dispatch order, filled by scanning queues
        self.seen = set()
        self.replacements = 0; self.replaced = {}
        self.in_accept_one = False
        ex.env_turn = self.env_turn
        K = c['max_conns'] + 3
        self.pc_fn = single_var_pc('limit', list(range(1, K + 1)) + [c['limit_max']]) if c['limit'] is None else None
        ex.after_send = self.on_send
        # a send that fails while exactly one handle is left empties the handle list: the connection is then dropped legitimately
        # ("no workers"), whatever the list looks like at the end of the event batch (a queued replacement may be added later)
        self.legal_drops = set()
        if self.cfg.get('track_c01'): ex.on_send_fail = self.on_send_fail
        self.c04_marks = []; self.sends = []

    # ---- construction helpers
    def byname(self, sname, **kw):
        order = self.c.structs[sname]
        if set(order) != set(kw): raise core.Inconclusive('fields of %s changed: %s' % (sname, order))
        return [kw[k] for k in order]

    def field(self, obj, sname, fname): return obj.f[self.c.structs[sname].index(fname)]

    def new_worker(self, idx, gen):
        ch = ChanObj()
        ctr = Struct('Counter', self.byname('Counter', counter=RcPtr(RcBox(AtomicObj(z3.BitVecVal(1, 64)))), limit=self.limit))
        # worker side shares the atomic: Counter is Clone (Arc clone)
        ctr_w = Struct('Counter', self.byname('Counter', counter=RcPtr(self.field(ctr, 'Counter', 'counter').v.box), limit=self.limit))
        self.field(ctr, 'Counter', 'counter').v.box.strong += 1
        wc = Struct('WorkerCounter', self.byname('WorkerCounter', idx=z3.BitVecVal(idx, 64), inner=RcPtr(RcBox(Tuple([self.wq, ctr_w])))))
        self.workers[idx] = dict(chan=ch, counter=ctr, wc=wc, inservice=[], owed=[], alive=True, gen=gen, idx=idx)
        self.allworkers.append(self.workers[idx])
        return Struct('WorkerHandleAccept', self.byname('WorkerHandleAccept', idx=z3.BitVecVal(idx, 64), conn_tx=TxObj(ch), counter=ctr))

    def R(self, v): return Ref(LCell(Cell(v)))

    # ---- observers on the real state
    def handle_idxs(self):
        hs = self.field(self.accept, 'Accept', 'handles').v.items
        return [z3.simplify(self.field(h.v, 'WorkerHandleAccept', 'idx').v).as_long() for h in hs]

    def bit(self, idx):
        return self.ex.run(self.c.GET, [Ref(LCell(self.field(self.accept, 'Accept', 'avail'))), z3.BitVecVal(idx, 64)])

    def real_paused(self):
        return z3.is_true(z3.simplify(self.field(self.accept, 'Accept', 'paused').v))

    def n_inprogress(self, w):
        wk = self.workers[w]; return len(wk['chan'].q) + len(wk['inservice'])

    def sid_of(self, conn):
        io = self.field(conn, 'Conn', 'io').v
        return z3.simplify(io.f[0].v.f[0].v).as_long(), io.variant, z3.simplify(self.field(conn, 'Conn', 'token').v).as_long()

    def wake(self, interest): self.ex.run(self.c.WQ_WAKE, [self.R(self.wq), interest])

    # ---- bookkeeping of dispatches: scan queues for stream ids not seen before
    def scan_dispatches(self):
        new = 0
        for wk in self.allworkers:
            idx = wk['idx']
            for conn in wk['chan'].q:
                sid, kind, tok = self.sid_of(conn)
                if (sid, idx, wk['gen']) not in self.seen:
                    self.seen.add((sid, idx, wk['gen'])); self.dispatch_log.append((sid, tok, kind, idx, wk['gen'])); new += 1
        return new

    # ---- the environment's turn (called from the model of mio::Poll::poll)
    def env_turn(self, timeout):
        ex, acc, c = self.ex, self.acc, self.cfg
        self.scan_dispatches()
        if c.get('snapshots') is not None: c['snapshots'].append(self.snapshot())
        self.check_at_block()
        if c.get('snapshots') is None and all(self.field(si.v, 'ServerSocketInfo', 'timeout').v.variant == 'None' for si in self.sockets.items):
            ex.clock = z3.IntVal(1000)      # no Instant is stored anywhere: re-base the virtual clock (only differences matter)
        boundary(ex, acc, self.turn + 1, self.roots(), self.pc_fn)
        self.turn += 1
        if self.turn > c['turns']: raise EndOfSchedule()
        self.paused_at_entry = self.real_paused(); self.dispatched_at_entry = len(self.dispatch_log); self.resume_since_entry = False
        script = c.get('script')
        if script is not None:
            ops, evs = script[self.turn - 1]
            for op in ops:
                self.hist.append(op); self.apply_env(op)
            batch = []
            for e in evs:
                if e == 'waker': batch.append(WAKER_TOKEN); self.mw.pending = 0
                else:
                    l = int(e[3:]); batch.append(l); self.listeners[l].edge = False
            self.hist.append('poll[%s]' % ','.join(evs))
            return batch
        nact = 0
        while nact < c['env_per_turn']:
            ops = self.enabled_ops()
            op = ex.pick('env', ops)
            if op == 'go': break
            nact += 1; acc.transitions += 1
            self.apply_env(op)
        batch = []
        if self.mw.pending > 0: batch.append(WAKER_TOKEN); self.mw.pending = 0
        for l, lo in enumerate(self.listeners):
            if lo.registered and lo.edge: batch.append(l); lo.edge = False
        if len(batch) > 1 and c['order_events']:
            first = ex.pick('evorder', list(range(len(batch))))
            batch = [batch[first]] + batch[:first] + batch[first + 1:]
        self.hist.append('poll[%s]' % ','.join('waker' if b == WAKER_TOKEN else 'lst%d' % b for b in batch))
        return batch

    def enabled_ops(self):
        c = self.cfg; A = c['actions']; ops = []
        if self.stopped: return ['go']
        if 'connect' in A and self.nconn < c['max_conns']:
            ops += ['connect%d' % l for l in range(len(self.listeners))]
        for kind in ('Refused', 'Aborted', 'Reset', 'Other'):
            if ('aerr' in A or ('aerr:' + kind) in A) and self.nconn < c['max_conns']:
                ops += ['aerr%d:%s' % (l, kind) for l in range(len(self.listeners))]
        for idx, wk in sorted(self.workers.items()):
            if c['pickup'] and wk['alive'] and wk['chan'].q: ops.append('pickup%d' % idx)
            if 'finish' in A:
                if wk['alive'] and (wk['inservice'] or (not c['pickup'] and wk['chan'].q)): ops.append('finish%d' % idx)
                if not wk['alive'] and wk['owed']: ops.append('finish%d' % idx)
            if 'die' in A and wk['alive'] and sum(1 for x in self.workers.values() if not x['alive']) < c.get('max_dead', 1): ops.append('die%d' % idx)
        if 'replace' in A and self.replacements < c['max_replacements']:
            for cmdv in self.cmd.q:
                if isinstance(cmdv, Enum) and cmdv.variant == 'WorkerFaulted':
                    ops.append('replace%d' % z3.simplify(cmdv.f[0].v).as_long()); break
        if 'pause' in A: ops.append('pause')
        if 'resume' in A: ops.append('resume')
        if 'stop' in A: ops.append('stop')
        if 'tick' in A and self.nticks < c.get('max_ticks', 3): ops.append('tick')
        ops.append('go')
        return ops

    def apply_env(self, op):
        ex = self.ex; scripted = self.cfg.get('script') is not None
        if not scripted and not op.startswith(('tick', 'finish')): self.hist.append(op)
        if op.startswith('connect'):
            lo = self.listeners[int(op[7:])]; lo.script.append('Stream'); self.nconn += 1
            if lo.registered: lo.edge = True
        elif op.startswith('aerr'):
            l, kind = op[4:].split(':'); lo = self.listeners[int(l)]; lo.script.append(kind); self.nconn += 1
            if lo.registered: lo.edge = True
        elif op == 'pause': self.wake(Enum('WakerInterest', 'Pause')); self.pause_cmds += 1
        elif op == 'resume': self.wake(Enum('WakerInterest', 'Resume')); self.resume_since_entry = True
        elif op == 'stop': self.wake(Enum('WakerInterest', 'Stop')); self.stopped = True
        elif op.startswith('tick'):
            if any(self.field(si.v, 'ServerSocketInfo', 'timeout').v.variant == 'Some' for si in self.sockets.items): self.nticks += 1
            if ':' in op: dt = z3.IntVal(int(op.split(':')[1]))
            else:
                name = 'dt%d' % len(self.hist); dt = z3.Int(name); ex.solver.add(dt >= 0, dt <= 2000); self.hist.append('tick:' + name)
            ex.clock = z3.simplify(ex.clock + dt)
        elif op.startswith('pickup'): self.pickup(int(op[6:]))
        elif op.startswith('finish'):
            if ':' in op: w_, k_ = op[6:].split(':'); self.finish(int(w_), which=int(k_))
            else: self.finish(int(op[6:]))
        elif op.startswith('die'): self.die(int(op[3:]))
        elif op.startswith('replace'): self.replace(int(op[7:]))

    def pickup(self, idx):
        wk = self.workers[idx]; conn = wk['chan'].q.pop(0)
        guard = self.ex.run(self.c.GUARD, [self.R(wk['wc'])])
        wk['inservice'].append((self.sid_of(conn)[0], guard))

    def finish(self, idx, which=None):
        wk = self.workers[idx]
        if not wk['alive']:
            if self.cfg.get('script') is None: self.hist.append('finish%d' % idx)
            sid, guard = wk['owed'].pop(0)
        else:
            if not wk['inservice']: self.pickup(idx)
            k = 0
            if len(wk['inservice']) > 1 and which is None: k = self.ex.pick('which', list(range(len(wk['inservice']))))
            elif which is not None: k = which
            if self.cfg.get('script') is None: self.hist.append('finish%d:%d' % (idx, k))
            sid, guard = wk['inservice'].pop(k)
        self.ex.drop(guard)                      # real Drop for WorkerCounterGuard: Counter::dec + WakerQueue::wake
        self.finished.append(sid)

    def die(self, idx):
        wk = self.workers[idx]; wk['alive'] = False; self.faulted_ever = True
        for conn in wk['chan'].q: self.lost_with_dead.append(self.sid_of(conn)[0])
        wk['chan'].q = []; wk['chan'].rx_alive = False
        wk['owed'] = wk['inservice']; wk['inservice'] = []

    def replace(self, idx):
        for k, cmdv in enumerate(self.cmd.q):
            if isinstance(cmdv, Enum) and cmdv.variant == 'WorkerFaulted' and z3.simplify(cmdv.f[0].v).as_long() == idx:
                self.cmd.q.pop(k); self.replaced[idx] = self.replaced.get(idx, 0) + 1; break
        old = self.workers[idx]
        h = self.new_worker(idx, old['gen'] + 1); self.replacements += 1
        self.wake(Enum('WakerInterest', 'Worker', [h]))

    def on_send(self, ch):
        """Called by the channel model right after a successful `conn_tx.send`, before `inc_counter` runs: records the
        dispatch (for C04) and, in race mode, is the yield point at which the worker may already pick the connection up
        and finish it (or another one)."""
        for idx, wk in self.workers.items():
            if wk['chan'] is ch and wk['alive']:
                if self.cfg.get('track_count'):
                    # the worker decides "idle" (graceful Stop answered `true` at once) by Counter::total() == 0: a connection it can
                    # already see must therefore already be counted
                    tot = self.ex.run(self.c.TOTAL, [self.R(wk['counter'])]); out = self.n_inprogress(idx)
                    self.acc.violated(self.ex, 'C06/a_dispatched_connection_is_counted_before_its_worker_can_see_it', z3.ULT(tot, z3.BitVecVal(out, 64)), hist=self.hist + ['<between conn_tx.send and inc_counter>'],
                                      what='worker %d holds %d connections (queued or in service) while its counter says %s: a graceful Stop handled now is answered "idle"' % (idx, out, z3.simplify(tot)))
                    self.acc.wit['c06_count_checked_at_send'] += 1
                if self.cfg.get('track_c04'):
                    n = {i: self.n_inprogress(i) - (1 if i == idx else 0) for i in self.workers}
                    bits = {i: self.bit(i) for i in self.workers}
                    self.c04_marks.append((n, bits)); self.sends.append(idx)
                if self.cfg['race'] and self.ex.pick('race', ['no', 'yes']) == 'yes':
                    self.hist.append('race:'); self.acc.wit['finish_between_send_and_inc'] += 1
                    self.finish(idx)

    def on_send_fail(self, ch, conn):
        try: sid = self.sid_of(conn)[0]
        except Exception: return
        if len(self.handle_idxs()) == 1: self.legal_drops.add(sid)
        else: self.legal_drops.discard(sid)

    def roots(self):
        """Everything the future of this path depends on (real objects + ghost state), for the canonical state signature."""
        nW = len(self.workers)
        ghost = dict(nconn=self.nconn, nticks=self.nticks, stopped=self.stopped, faulted=self.faulted_ever, fin=sorted(self.finished) if self.cfg.get('track_c01') else None, lost=sorted(self.lost_with_dead) if self.cfg.get('track_c01') else None,
                     repl=self.replacements, tail=self.sends[-(nW - 1):] if nW > 1 and self.cfg.get('track_c04') else None,
                     marks=self.c04_marks[-(nW - 1):] if nW > 1 and self.cfg.get('track_c04') else None,
                     prev_dl=getattr(self, 'prev_dl', None), dropped=sorted(self.dropped_no_worker) if self.cfg.get('track_c01') else None, replaced=self.replaced, legal=sorted(self.legal_drops) if self.cfg.get('track_c01') else None)
        ws = [(wk['idx'], wk['gen'], wk['alive'], wk['chan'], wk['counter'], wk['inservice'], wk['owed']) for wk in self.allworkers]
        return [self.accept, self.sockets, ws, self.wq, self.cmd, self.ex.clock, ghost]

    def snapshot(self):
        """Same text as the native driver prints (mount/actix-server/src/accept/drv.rs) - used for differential validation."""
        A = lambda f: self.field(self.accept, 'Accept', f).v
        cv = lambda x: z3.simplify(x).as_long()
        tmo = A('timeout'); bits = cv(self.avail.f[0].v.e[0].v)
        s = 'T%d paused=%d tmo=%s next=%d bits=%x wake=%d wq=%d H=[%s]' % (self.turn, 1 if self.real_paused() else 0,
            'none' if tmo.variant == 'None' else str(cv(tmo.f[0].v)), cv(A('next')), bits, self.mw.pending, len(self.mq.value.v.items),
            ','.join(str(i) for i in self.handle_idxs()))
        for wk in self.allworkers:
            q = [self.sid_of(cn)[0] for cn in wk['chan'].q]
            cnt = cv(self.field(wk['counter'], 'Counter', 'counter').v.box.value.v.value.v)
            s += ' W%dg%d:a=%d,q=%s,in=%s,owed=%s,cnt=%d' % (wk['idx'], wk['gen'], 1 if wk['alive'] else 0, q, [x[0] for x in wk['inservice']],
                                                           [x[0] for x in wk['owed']], cnt)
        for l, lo in enumerate(self.listeners):
            info = self.sockets.items[l].v
            dl = self.field(info, 'ServerSocketInfo', 'timeout').v
            s += ' L%d:reg=%d,bl=%d,dl=%s,link=%d,tok=%d,acc=%d' % (l, 1 if lo.registered else 0, len(lo.script), 'none' if dl.variant == 'None' else str(cv(dl.f[0].v)),
                                                          -1 if lo.kind == 'Tcp' else (1 if lo.path_linked else 0), cv(self.field(info, 'ServerSocketInfo', 'token').v), lo.next_id)
        cmds = ['F%d' % cv(x.f[0].v) if (isinstance(x, Enum) and x.variant == 'WorkerFaulted') else 'other' for x in self.cmd.q]
        s += ' cmd=[%s] clock=%d fin=%s lost=%s' % (','.join(cmds), cv(self.ex.clock), self.finished, self.lost_with_dead)
        return s

    # ---- assertions at every entry into Poll::poll; subclasses / property drivers override `checks`
    def check_at_block(self):
        for chk in self.cfg.get('checks', ()):
            chk(self)

    # ---- run the real loop
    def run_loop(self):
        ex = self.ex
        try:
            ex.run(self.c.POLL_WITH, [self.R(self.accept), self.R(self.sockets)])
            self.acc.wit['loop_returned_on_stop'] += 1
            return 'returned'
        except EndOfSchedule:
            return 'end'


# ---------------------------------------------------------------- model hook: mio::Poll::poll -> env turn
def _m_poll_poll(ex, a, t):
    ev = target(a[1])
    ev.items = [Cell(Struct('Event', [Struct('Token', [z3.BitVecVal(tok, 64)])])) for tok in ex.env_turn(a[2])]
    return Enum('Result', 'Ok', [UNIT])
