"""Server-command world for engine S (C06, server side): the real `ServerInner::run` / `ServerInner::handle_cmd`
coroutines (actix-server/src/server.rs), `ServerEventMultiplexer::poll_next`, `ServerHandle::{stop,pause,resume}` and
their futures, `WorkerHandleServer::stop` and `join_all` are executed as written from the MIR of the mount crate.  The
environment - users issuing commands, OS signals, workers answering (or dropping) their Stop request, the clock, and when the
Server future and the stop futures are polled - is a sequence of solver choices.

What stands for the rest of the server: `ServerInner::run_sync` (binding sockets, starting the accept thread and the
workers) returns a ServerInner built by the driver; the accept thread is a join handle whose `join()` returns iff the
Stop interest has been queued on the real WakerQueue before (otherwise the real call would block forever: recorded as a
violation); workers are the receiving ends of the real stop channels."""
import z3
from vlib import core
from mirsym import Exec, Ref, LCell, Cell, Enum, Struct, Tuple, Opaque, Abort, Panic, Unknown, UNIT, CoroutineVal
import models, srvmodels
from models import MODELS, ChanObj, TxObj, RxObj, VecObj, RcPtr, RcBox, MutexObj, DequeObj, MioWaker, ContextObj, WakerObj, SleepObj, target, poll_coroutine
from srvmodels import OneshotRx
from explore import explore, Acc


class ThreadObj:
    """std::thread::JoinHandle of the accept thread"""
    canon_fields = ('joined',)
    def __init__(self, w): self.w, self.joined = w, False
    def model_drop(self, ex): pass
class SignalsObj:
    canon_fields = ('fired',)
    def __init__(self, w): self.w, self.fired = w, False
    def model_drop(self, ex): pass
class NextObj:
    def __init__(self, stream): self.stream = stream
    def model_drop(self, ex): pass
class SystemObj:
    def model_drop(self, ex): pass


def m_run_sync(ex, a, t):
    w = ex.srvr
    return Enum('Result', 'Ok', [Tuple([w.inner, w.mux])])
def m_stream_next(ex, a, t): return NextObj(a[0])
def m_next_poll(ex, a, t):
    n = target(a[0]); w = ex.srvr
    return ex.run(w.c.MUX_POLL_NEXT, [n.stream, a[1]])
def m_signals_poll(ex, a, t):
    s = target(a[0]); w = ex.srvr
    if s.fired: raise Panic('Signals polled after it produced a signal')
    if w.pending_signal is None: return Enum('Poll', 'Pending')
    s.fired = True; k = w.pending_signal; w.pending_signal = None
    w.log.append(('signal_delivered', k))
    return Enum('Poll', 'Ready', [Enum('SignalKind', k)])
def m_thread_join(ex, a, t):
    th = a[0]; w = ex.srvr
    stop_queued = any(isinstance(it, Enum) and it.variant == 'Stop' for it in w.mq.value.v.items) or w.stop_interest_seen
    w.log.append(('join', stop_queued, w.mw.pending))
    if not stop_queued: w.join_would_block = True
    th.joined = True
    return Enum('Result', 'Ok', [UNIT])
def m_oneshot_send2(ex, a, t):
    tx = a[0]; w = getattr(ex, 'srvr', None)
    if getattr(tx, 'rx_dropped', False): return Enum('Result', 'Err', [a[1]])
    tx.sent = a[1]
    if w is not None: w.log.append(('oneshot_send', getattr(tx, 'tag', None)))
    return Enum('Result', 'Ok', [UNIT])
def m_oneshot_rx_poll(ex, a, t):
    return target(a[0]).poll(ex)
def m_sleep300(ex, a, t):
    w = ex.srvr; w.log.append(('sleep', a[0]))
    return SleepObj(z3.simplify(ex.clock + a[0]))
def m_try_current(ex, a, t):
    w = ex.srvr
    return Enum('Option', 'Some', [w.system]) if w.has_system else Enum('Option', 'None')
def m_system_stop(ex, a, t):
    w = ex.srvr; w.log.append(('system_stop', ex.clock)); return UNIT
def m_coroutine_poll(ex, a, t): return poll_coroutine(ex, target(a[0]), a[1])
def m_opt_as_ref(ex, a, t):
    o = target(a[0])
    return Enum('Option', 'Some', [Ref(LCell(o.f[0]))]) if o.variant == 'Some' else Enum('Option', 'None')
def m_opt_map_fn(ex, a, t):
    o, f = a
    if o.variant != 'Some': return Enum('Option', 'None')
    return Enum('Option', 'Some', [srvmodels._callable(ex, f, [o.f[0].v])])
def m_dur_from_millis(ex, a, t):
    v = a[0]
    return z3.BV2Int(v) if z3.is_bv(v) else v

SRVR_MODELS = [
    (r'ServerInner::run_sync$', m_run_sync), (r'as StreamExt>::next$', m_stream_next), (r'^<(futures_util::stream::)?Next<.*> as Future>::poll$', m_next_poll),
    (r'^<Signals as (futures_core::|std::future::)?Future>::poll$', m_signals_poll), (r'JoinHandle::<\(\)>::join$', m_thread_join),
    (r'oneshot::Sender::<.*>::send$', m_oneshot_send2), (r'^<(tokio::sync::)?oneshot::Receiver<.*> as (futures_core::|std::future::)?Future>::poll$', m_oneshot_rx_poll),
    (r'(?:^|::)sleep$', m_sleep300), (r'System::try_current$', m_try_current), (r'System::stop$', m_system_stop),
    (r'^<\{async (fn body|block).*\} as (futures_core::|std::future::)?Future>::poll$', m_coroutine_poll),
    (r'^Option::<.*>::as_ref$', m_opt_as_ref), (r'^Option::<&System>::map::<', m_opt_map_fn), (r'Duration::from_millis$', m_dur_from_millis),
    (r'IntoFuture>::into_future$', srvmodels.m_identity),
    (r'^Pin::<.*>::new$', lambda ex, a, t: a[0]), (r'^Pin::<.*>::new_unchecked$', lambda ex, a, t: a[0]), (r'^Pin::<.*>::get_unchecked_mut$', lambda ex, a, t: a[0]),
    (r'^Pin::<.*>::into_inner$', lambda ex, a, t: a[0]),
]


class SrvrCtx:
    """function handles on top of the accept-loop context (same MIR dump of the mount crate)"""
    def __init__(self, sctx):
        self.s = sctx; self.fns = sctx.fns; self.structs = sctx.structs; self.enums = sctx.enums
        self.RUN = sctx.F('ServerInner::run') if False else self._fn('::run', 'server.rs')
        self.MUX_POLL_NEXT = sctx.M('ServerEventMultiplexer', 'poll_next', 'Stream')
        self.H_STOP = sctx.M('ServerHandle', 'stop'); self.H_PAUSE = sctx.M('ServerHandle', 'pause'); self.H_RESUME = sctx.M('ServerHandle', 'resume')
        for need in ('ServerInner', 'ServerEventMultiplexer', 'WorkerHandleServer', 'Stop'):
            if need not in self.structs: raise core.Inconclusive('layout of %s not found in the sources' % need)
        self.models = SRVR_MODELS + MODELS

    def _fn(self, suffix, contains):
        c = [f for n, f in self.fns.items() if n.endswith(suffix) and f.impl_loc and contains in str(f.impl_loc[0])]
        if len(c) != 1: raise core.Inconclusive('cannot locate %s in %s: %s' % (suffix, contains, [x.name for x in c][:6]))
        return c[0]

    def mk(self):
        ex = Exec(self.fns, self.models, self.structs, self.enums); ex.wakes = {}
        return ex


class ServerWorld:
    def __init__(self, ctx, ex, acc, W, system_stop, signals, has_system):
        self.c, self.ex, self.acc = ctx, ex, acc
        ex.srvr = self; ex.clock = z3.IntVal(1000)
        S = ctx.structs
        def byname(sname, **kw):
            order = S[sname]
            if set(order) != set(kw): raise core.Inconclusive('fields of %s changed: %s' % (sname, order))
            return [kw[k] for k in order]
        self.mw = MioWaker(); self.mq = MutexObj(DequeObj()); self.stop_interest_seen = False
        self.wq = Struct('WakerQueue', [RcPtr(RcBox(Tuple([self.mw, self.mq])))])
        self.cmd = ChanObj(); self.handle = Struct('ServerHandle', [TxObj(self.cmd)])
        self.wchan = [ChanObj() for _ in range(W)]
        handles = [Struct('WorkerHandleServer', byname('WorkerHandleServer', idx=z3.BitVecVal(i, 64), stop_tx=TxObj(self.wchan[i]))) for i in range(W)]
        self.thread = ThreadObj(self)
        self.inner = Struct('ServerInner', byname('ServerInner', worker_handles=VecObj(handles), accept_handle=Enum('Option', 'Some', [self.thread]),
                            worker_config=Opaque('worker config'), services=VecObj([]), waker_queue=self.wq, system_stop=z3.BoolVal(system_stop), stopping=z3.BoolVal(False)))
        self.signals = SignalsObj(self) if signals else None
        self.mux = Struct('ServerEventMultiplexer', byname('ServerEventMultiplexer', cmd_rx=RxObj(self.cmd),
                          signal_fut=Enum('Option', 'Some', [self.signals]) if signals else Enum('Option', 'None')))
        self.system = SystemObj(); self.has_system = has_system
        self.pending_signal = None; self.join_would_block = False
        self.log = []; self.hist = []; ex.hist = self.hist
        self.server = ex.run(ctx.RUN, [Opaque('builder')])
        if not isinstance(self.server, CoroutineVal): raise core.Inconclusive('ServerInner::run did not produce a coroutine')
        self.server_done = None
        self.stops = []        # dict(fut, graceful, done, tx)
        self.acks = []         # pause / resume futures
        self.worker_stops = [[] for _ in range(W)]     # per worker: Stop messages taken from its channel: dict(graceful, tx, answered)
        self.W = W

    # ---- operations
    def poll_server(self):
        if self.server_done is not None: return self.server_done
        n0 = len(self.log)
        r = poll_coroutine(self.ex, self.server, Ref(LCell(Cell(ContextObj(WakerObj(1))))))
        self.hist.append('poll_server')
        if r.variant == 'Ready': self.server_done = r.f[0].v; self.log.append(('server_ready',))
        return self.log[n0:]

    def user_stop(self, graceful):
        fut = self.ex.run(self.c.H_STOP, [Ref(LCell(Cell(self.handle))), z3.BoolVal(graceful)])
        self.stops.append(dict(fut=fut, graceful=graceful, done=False)); self.hist.append('stop(%s)' % ('graceful' if graceful else 'forced'))

    def user_pause(self, resume=False):
        fut = self.ex.run(self.c.H_RESUME if resume else self.c.H_PAUSE, [Ref(LCell(Cell(self.handle)))])
        self.acks.append(dict(fut=fut, kind='resume' if resume else 'pause', done=False)); self.hist.append('resume' if resume else 'pause')

    def poll_fut(self, d):
        if d['done']: return True
        r = poll_coroutine(self.ex, d['fut'], Ref(LCell(Cell(ContextObj(WakerObj(2))))))
        if r.variant == 'Ready': d['done'] = True
        return d['done']

    def signal(self, kind):
        self.pending_signal = kind; self.hist.append('SIG' + kind.upper())

    def worker_take(self):
        """workers read their stop channels (the real Stop messages sent by WorkerHandleServer::stop)"""
        for i, ch in enumerate(self.wchan):
            while ch.q:
                m = ch.q.pop(0)
                g = m.f[self.c.structs['Stop'].index('graceful')].v; tx = m.f[self.c.structs['Stop'].index('tx')].v
                self.worker_stops[i].append(dict(graceful=g, tx=tx, answered=False))

    def worker_answer(self, i, how):
        self.worker_take()
        for s in self.worker_stops[i]:
            if s['answered']: continue
            s['answered'] = True
            if how == 'drop': s['tx'].dropped = True
            else: s['tx'].sent = z3.BoolVal(how == 'true')
        self.hist.append('worker%d:%s' % (i, how))

    def tick(self, ms):
        self.ex.clock = z3.simplify(self.ex.clock + ms); self.hist.append('tick:%s' % ms)

    def unanswered_workers(self):
        self.worker_take()
        return [i for i in range(self.W) if not self.worker_stops[i] or any(not s['answered'] for s in self.worker_stops[i])]


# ---------------------------------------------------------------- exploration
def _is_true(v):
    v = z3.simplify(v) if z3.is_expr(v) else v
    return bool(z3.is_true(v)) if z3.is_expr(v) else bool(v)


def describe_cmd(ctx, cmd):
    """(kind, graceful, completion tx or None, force_system_stop) of a ServerCommand value"""
    if cmd.variant == 'Stop':
        order = ['graceful', 'completion', 'force_system_stop']
        g, c, f = (cmd.f[k].v for k in range(3))
        return ('Stop', _is_true(g), c.f[0].v if c.variant == 'Some' else None, _is_true(f))
    if cmd.variant in ('Pause', 'Resume'): return (cmd.variant, None, cmd.f[0].v, None)
    return (cmd.variant, None, None, None)


def m_next_poll_logged(ex, a, t):
    r = m_next_poll(ex, a, t); w = ex.srvr
    if r.variant == 'Ready' and r.f[0].v.variant == 'Some': w.log.append(('cmd',) + describe_cmd(w.c, r.f[0].v.f[0].v))
    elif r.variant == 'Ready': w.log.append(('cmd_stream_ended',))
    return r
SRVR_MODELS[:0] = [(r'^<(futures_util::stream::)?Next<.*> as (futures_core::|std::future::)?Future>::poll$', m_next_poll_logged)]


def check_after_poll(w, new):
    """obligations on what one poll of the Server future did (`new` = its log entries, in program order)"""
    acc, ex = w.acc, w.ex
    kinds = [e[0] for e in new]
    for e in new:
        if e[0] == 'cmd' and e[1] == 'Stop' and w.stop_cmd is None:
            w.stop_cmd = dict(graceful=e[2], completion=e[3], force=e[4], joined=False, completed=False, clock=ex.clock)
        if e[0] == 'cmd' and e[1] in ('Pause', 'Resume'):
            items = [it.variant for it in w.mq.value.v.items if isinstance(it, Enum)]
            acc.violated(ex, 'C06/pause_resume_commands_reach_the_accept_thread_and_are_acknowledged', not (e[1] in items and e[3].sent is not None and w.mw.pending >= 1), hist=w.hist,
                         what='%s command: waker queue %s, ack sent %s' % (e[1], items, e[3].sent is not None))
            acc.wit['c06_srv_pause_resume'] += 1
    sc = w.stop_cmd
    if sc is None:
        acc.violated(ex, 'C06/server_future_runs_until_a_stop_command', w.server_done is not None and not w.cmd_closed(), hist=w.hist, what='the Server future resolved although no Stop command or signal had been processed')
        return
    if 'join' in kinds and not sc['joined']:
        sc['joined'] = True
        j = [e for e in new if e[0] == 'join'][0]
        acc.violated(ex, 'C06/accept_thread_is_told_to_stop_before_it_is_joined', (not j[1]) or j[2] < 1, hist=w.hist,
                     what='JoinHandle::join() on the accept thread with Stop queued=%s, mio wake-ups=%d: the join would block forever' % (j[1], j[2]))
        stops_q = sum(1 for it in w.mq.value.v.items if isinstance(it, Enum) and it.variant == 'Stop')
        acc.violated(ex, 'C06/accept_thread_is_told_to_stop_before_it_is_joined', stops_q != 1, key='C06/stop_interest_once', hist=w.hist, what='%d Stop interests queued' % stops_q)
        w.worker_take()
        for i in range(w.W):
            msgs = w.worker_stops[i]
            bad = len(msgs) != 1 or _is_true(msgs[0]['graceful']) != sc['graceful']
            acc.violated(ex, 'C06/every_worker_receives_one_stop_with_the_commands_mode', bad, hist=w.hist,
                         what='worker %d received %d Stop messages %s for a %s stop' % (i, len(msgs), [_is_true(m['graceful']) for m in msgs], 'graceful' if sc['graceful'] else 'forced'))
        if sc['graceful']:
            un = [i for i in range(w.W) if any(not s['answered'] for s in w.worker_stops[i])]
            acc.violated(ex, 'C06/graceful_stop_completes_only_after_every_worker_has_answered', bool(un), hist=w.hist,
                         what='graceful stop went on to join the accept thread / signal completion while workers %s had not answered their Stop' % un)
            acc.wit['c06_srv_graceful_waited'] += 1
        else: acc.wit['c06_srv_forced'] += 1
    if 'cmd' in kinds and not sc['graceful'] and [e for e in new if e[0] == 'cmd' and e[1] == 'Stop']:
        # a forced stop does not wait for anything: the poll that receives it reaches the join and the completion signal
        done = 'join' in kinds and (sc['completion'] is None or sc['completion'].sent is not None)
        acc.violated(ex, 'C06/forced_stop_completes_without_waiting_for_workers', not done, hist=w.hist, what='forced stop received, but the same poll did not join the accept thread and signal completion (log %s)' % kinds)
    if sc['completion'] is not None and sc['completion'].sent is not None and not sc['completed']:
        sc['completed'] = True
        order_ok = sc['joined'] and ('join' not in kinds or kinds.index('join') < max(i for i, e in enumerate(new) if e[0] == 'oneshot_send'))
        acc.violated(ex, 'C06/completion_is_signalled_only_after_the_accept_thread_has_stopped', not order_ok, hist=w.hist, what='completion sent before the accept thread was joined (log %s)' % kinds)
        acc.wit['c06_srv_completion_sent'] += 1
    need_sys = (w.system_stop_cfg or sc['force'])
    for e in new:
        if e[0] == 'system_stop':
            sl = [x for x in w.log if x[0] == 'sleep']
            acc.violated(ex, 'C06/system_is_stopped_only_when_asked_and_after_the_delay', (not need_sys) or not sl, hist=w.hist, what='System::stop() called with exit=%s force=%s sleeps=%d' % (w.system_stop_cfg, sc['force'], len(sl)))
            acc.wit['c06_srv_system_stopped'] += 1
    if w.server_done is not None:
        acc.violated(ex, 'C06/server_future_resolves_only_after_the_stop_has_completed', not sc['joined'], hist=w.hist, what='Server future Ready before the accept thread was joined')
        if need_sys and w.has_system:
            acc.violated(ex, 'C06/system_is_stopped_only_when_asked_and_after_the_delay', not any(e[0] == 'system_stop' for e in w.log), key='C06/system_stop_missing', hist=w.hist,
                         what='exit/force_system_stop set and a System is running, but the Server future resolved without System::stop()')
        acc.violated(ex, 'C06/server_future_resolves_ok', w.server_done.variant != 'Ok', hist=w.hist)


def make_body(ctx, steps, W):
    def body(ex, acc):
        cfg = ex.pick('cfg', ['plain', 'exit', 'signals', 'signals-nosystem'])
        w = ServerWorld(ctx, ex, acc, W, system_stop=(cfg == 'exit'), signals=cfg.startswith('signals'), has_system=(cfg != 'signals-nosystem'))
        w.system_stop_cfg = (cfg == 'exit'); w.stop_cmd = None; w.cmd_closed = lambda: False
        w.hist.append('cfg=%s W=%d' % (cfg, W))
        nstops = 0; npause = 0; sig_sent = False
        for step in range(steps):
            ops = ['poll']
            if nstops < 2: ops += ['stop_g', 'stop_f']
            if w.signals is not None and not sig_sent: ops += ['sig_int', 'sig_term', 'sig_quit']
            if npause < 1: ops += ['pause', 'resume']
            w.worker_take()
            pend = [i for i in range(W) if any(not s['answered'] for s in w.worker_stops[i])]
            for i in pend: ops += ['w%d:true' % i, 'w%d:drop' % i]
            if any(e[0] == 'sleep' for e in w.log) and not any(e[0] == 'system_stop' for e in w.log) and w.server_done is None: ops += ['tick:299', 'tick:300']
            op = ex.pick('op', ops)
            if op == 'poll':
                if w.server_done is not None: continue
                try: new = w.poll_server()
                except Panic as p:
                    acc.violated(ex, 'C06/server_future_never_panics', True, hist=w.hist, what=str(p)); return
                check_after_poll(w, new)
            elif op in ('stop_g', 'stop_f'): w.user_stop(op == 'stop_g'); nstops += 1
            elif op.startswith('sig_'): w.signal({'sig_int': 'Int', 'sig_term': 'Term', 'sig_quit': 'Quit'}[op]); sig_sent = True
            elif op in ('pause', 'resume'): w.user_pause(op == 'resume'); npause += 1
            elif op.startswith('w'): i, how = op[1:].split(':'); w.worker_answer(int(i), how)
            elif op.startswith('tick:'): w.tick(int(op[5:]))
        # ---- fair completion: every worker answers, the clock passes the delay, the runtime keeps polling the woken future
        issued = nstops > 0 or sig_sent
        for rnd in range(4):
            if w.server_done is not None: break
            w.worker_take()
            for i in range(W):
                if any(not s['answered'] for s in w.worker_stops[i]): w.worker_answer(i, 'true')
            try: new = w.poll_server()
            except Panic as p:
                acc.violated(ex, 'C06/server_future_never_panics', True, hist=w.hist, what=str(p)); return
            check_after_poll(w, new)
            w.tick(300)
        if issued:
            acc.violated(ex, 'C06/server_future_resolves_after_a_stop', w.server_done is None, hist=w.hist, what='a Stop command / signal was issued, every worker answered and the clock advanced, but the Server future is still Pending')
            for k, s in enumerate(w.stops):
                try: ok = w.poll_fut(s)
                except Panic as p: ok = False
                acc.violated(ex, 'C06/every_stop_future_resolves', not ok, hist=w.hist, what='stop future %d (%s) is still Pending after the server stopped' % (k, 'graceful' if s['graceful'] else 'forced'))
            if len(w.stops) >= 2: acc.wit['c06_srv_two_stops'] += 1
            if w.server_done is not None: acc.wit['c06_srv_resolved'] += 1
        else:
            acc.violated(ex, 'C06/server_future_runs_until_a_stop_command', w.server_done is not None, hist=w.hist, what='the Server future resolved although no Stop command or signal was issued')
        for a_ in w.acks:
            if issued and w.server_done is not None:
                try: ok = w.poll_fut(a_)
                except Panic: ok = False
                acc.violated(ex, 'C06/pause_resume_futures_resolve', not ok, hist=w.hist)
        acc.transitions += len(w.hist)
        if len(acc.samples) < 4: acc.samples.append(' '.join(w.hist))
    return body


def run_server_side(rep, sctx, tier, seed):
    rep.models |= {'ServerInner::run_sync = returns a ServerInner built by the driver (real WakerQueue, real stop channels, scripted workers)',
                   'accept thread JoinHandle::join = returns iff the Stop interest was queued and the mio waker woken before (otherwise recorded as a blocking join)',
                   'Signals future = scripted (Pending | one of Int/Term/Quit); StreamExt::next = Next object polling the real poll_next',
                   'tokio oneshot = value slot + sender-dropped flag; System::try_current = Some/None per configuration; sleep on the virtual clock',
                   'async fn / async block bodies (ServerInner::run, handle_cmd, ServerHandle::{stop,pause,resume}) = the compiler\'s coroutine state machines, executed with suspension'}
    rep.assumptions += ['server side of C06: wake-up registration inside tokio (channel / oneshot / timer wakers) is not modelled; "resolves" means: Ready once every worker has answered, the clock has passed the delay and the future is polled again',
                        'the drop glue of a suspended coroutine is not modelled (a dropped, never polled stop future is a future that is never polled)']
    ctx = SrvrCtx(sctx)
    q = tier == 'quick'
    from props import srvrdiff
    rep.assumptions += ['the server-side world is validated on every run against the natively compiled mount crate (mount/actix-server/src/server/drv.rs: real ServerInner / handle_cmd / multiplexer / signals, a real accept-thread stand-in that ends when Stop is queued) on random concrete schedules']
    if not srvrdiff.differential(rep, ctx, seed, 150 if q else 600): return
    for W, steps in (((1, 6), (2, 5)) if q else ((1, 7), (2, 5), (3, 4))):
        acc = explore(ctx.mk, make_body(ctx, steps, W), seed=seed, seed_paths=200)
        rep.bounds['server-side W=%d' % W] = {'operations': steps, 'paths': acc.paths, 'stops': '<= 2', 'signals': '<= 1', 'pause/resume': '<= 1'}
        acc.to_report(rep)
        for key, v in sorted(acc.viol.items()):
            fkey = '%s: W=%d %s' % (v['obligation'], W, ' '.join(v['hist'][:14]))
            line, nat, sym = srvrdiff.replay_history(ctx, v['hist'])
            path = core.write_replay('C06', fkey, {'side': 'server', 'obligation': v['obligation'], 'history': v['hist'], 'what': v['what'], 'line': line, 'native_trace': nat, 'engine_trace': sym})
            # the native run of the same schedule shows the same observable trace on which the obligation is violated
            rep.violation(fkey, '%s -- %s; %s; native: %s' % (v['obligation'], v['what'], v['hist'], nat), replay=path, reproduced=(nat.strip() == sym.strip()))
