"""C12 - engine K: Kani harnesses in harness/service over the real actix-service combinators; leaves are scripted services
whose scripts (Pending counts, Ok/Err, payloads, mapper constants, request) are symbolic; fresh waker identity per poll."""
from vlib import kani, core


def run(rep, tier, seed):
    q = tier == 'quick'
    rep.models |= {'none: real actix-service (and futures-core, pin-project-lite) compiled by Kani; leaves are scripted test services'}
    rep.assumptions += ['one harness per concrete combinator tree (listed in the evidence); leaf scripts: Pending^k (k <= 2) then Ok/Err with symbolic payloads']
    rep.functions |= {'actix_service::{and_then, map, map_err, apply_fn, apply (Transform), boxed::{service, rc_service, factory}, Rc/Box/RefCell/& wrappers, map_config, map_init_err, factory forms}'}
    rep.bounds['trees'] = 'hand-enumerated trees of depth <= 2 (14 service trees, 8 factory trees, 7 readiness trees); deeper trees are outside the claim'
    # the polling contract (no poll after completion, current waker, pending only while an inner future is pending, stages at most once)
    # is asserted inside the drive loop of the c11 service-tree harnesses; the c12 harnesses cover readiness
    # ... and of the two-factory harness (an init future of a factory combinator must not be polled again after it completed either)
    sel = lambda h: h.startswith('c12_') or (h.startswith('c11_') and not h.startswith('c11_fac_')) or h == 'c11_fac_and_then'
    kani.check(rep, 'C12', 'service', sel, () if q else ('thorough',), wall=900 if q else 2400)


def replay(path): return kani.replay_file(path)
