"""C10 - arbiter commands run FIFO, at most once, nothing after stop (engine S, partial: ArbiterRunner::poll and the
ArbiterHandle methods; thread identity, join() and block_on are not decidable here, see DESIGN.md)."""
from props import rtworld


def run(rep, tier, seed):
    rep.need_witness('c10_spawn_refused', 'c10_tasks_started', 'c10_loop_ended')
    rtworld.run_rt(rep, 'C10', tier, seed)


def replay(path): return rtworld.replay_file(path)
