"""C20 - ByteString is always valid UTF-8 and agrees with str.  Engine K: Kani harnesses over the real bytestring on the
real `bytes`; one harness per concrete length and constructor, contents fully symbolic (all 256 byte values)."""
from vlib import kani, core


def run(rep, tier, seed):
    rep.level = 'model_checking'
    rep.models |= {'none: real bytestring, real bytes, real core::str (compiled by Kani)'}
    rep.assumptions += ['lengths are concrete per harness (0..4 quick, 0..5 thorough); contents symbolic', 'mem::forget of live ByteStrings at the end of a harness (drop glue is not the subject)']
    q = tier == 'quick'
    feats = () if q else ('thorough',)
    def select(h):
        if not h.startswith('c20_'): return False
        if q:
            # quick: every constructor up to N=3, N=4 for the slice/array forms, all split/eq/slice harnesses
            m = h.rsplit('_', 1)[-1]
            if h.startswith('c20_ctor_') and m == '4' and not any(k in h for k in ('slice', 'arrayref')): return False
        return True
    rep.bounds.update({'lengths': '0..4' if q else '0..5', 'split_indices': 'mid in {1,2,3} for N in {2,3,4}, and past the end', 'unwind': 8})
    rep.functions |= {'bytestring::ByteString::{try_from (6 forms), split_at, slice_ref, as_bytes, deref, eq, cmp, hash}'}
    kani.check(rep, 'C20', 'bytestring', select, feats, wall=600 if q else 1800)


def replay(path): return kani.replay_file(path)
