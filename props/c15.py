"""C15 - engine K: Kani harnesses in harness/codec (a mount-style crate: framed.rs / lines.rs / bcodec.rs of /repo compiled
against the model crates bytes (inline fixed-capacity buffers), memchr, tokio::io, tokio-util, tracing)."""
from vlib import kani, core

NOTES = {
 '13': ('Framed::next_item / Stream::poll_next: one poll per harness from a constructed pre-state (K buffered symbolic bytes, symbolic flags under the representation invariant, symbolic first transport answer); induction over polls gives independence of the arrival pattern', 'K + C <= 7 bytes (model CAP = 8); length-prefixed test codec and BytesCodec; LinesCodec framing is C15; 1 KiB / 8 KiB buffer growth is not modelled (virtual capacity only)'),
 '14': ('Framed::{write, flush, close} and the Sink impl: one sink operation per harness from a pre-state with K buffered symbolic bytes, every transport answer symbolic (Pending / Ok(0) / Ok(j) / Err; flush and shutdown Ready or Pending)', 'at most 3 poll_write calls per harness, items of 2 bytes, K <= 3; the 8 KiB high-water mark itself is out of reach of the 8-byte model buffer (only "below HW => ready without I/O" is checked)'),
 '15': ('LinesCodec::{decode, decode_eof, encode} and the round trip, bytes fully symbolic (all 256 values) per total length N, against an independent reference splitter and UTF-8 validator', 'N <= 3 (quick) / 5 (thorough); round trip for two strings of lengths <= 2; plus runs of 1..3 carriage returns before the newline with symbolic bytes around them (c15_decode_cr_run_K: exactly one CR is stripped), where the UTF-8 conversion is stubbed by the unchecked one (the bytes are ASCII by construction)'),
}


def run(rep, tier, seed):
    q = tier == 'quick'
    rep.models |= {'kani::stub: lines::try_into_utf8 -> unchecked conversion, in the c15_decode_cr_run_* harnesses only (ASCII inputs by construction)', 'bytes = value-type BytesMut/Bytes over an inline [u8; 8] + virtual capacity', 'memchr = least index, plain loop', 'tokio::io traits (verbatim signatures)',
                   'tokio_util::codec::{Decoder,Encoder} (verbatim trait text incl. default decode_eof), tokio_util::io::poll_read_buf', 'tracing = no-op'}
    rep.assumptions += ['exceeding the 8-byte model buffer is kani::assume(false) (stated bound)', 'live heap objects are mem::forgotten at the end of a harness']
    rep.functions.add(NOTES['15'][0]); rep.bounds['stated'] = NOTES['15'][1]
    rep.need_witness(*['C%s:' % '15' + w for w in ['CR stripped', 'valid line', 'trailing line']])
    kani.check(rep, 'C15', 'codec', lambda h: h.startswith('c15' + '_'), () if q else ('thorough',), wall=900 if q else 2400)


def replay(path): return kani.replay_file(path)
