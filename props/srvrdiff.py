"""Differential validation of the server-side world (props/srvrworld.py) against the natively compiled mount crate
(mount/actix-server/src/server/drv.rs): random concrete schedules, one snapshot per operation, compared verbatim."""
import os, random
import z3
from vlib import core
from mirsym import Enum, Panic
from props import srvrworld
from props.srvrworld import ServerWorld


def snapshot(w):
    w.worker_take()
    items = [it.variant for it in w.mq.value.v.items if isinstance(it, Enum)]
    ws = []
    for i in range(w.W):
        pend = [s for s in w.worker_stops[i] if not s['answered']]
        ws.append(''.join('g' if srvrworld._is_true(s['graceful']) else 'f' for s in pend) or '-')
    return 'wq=%d%d%d w=[%s] srv=%d stops=[%s] sys=%d blocked=%d' % (items.count('Pause'), items.count('Resume'), items.count('Stop'), ','.join(ws),
            1 if w.server_done is not None else 0, ','.join('1' if s['done'] else '0' for s in w.stops), sum(1 for e in w.log if e[0] == 'system_stop'), 1 if w.join_would_block else 0)


def sym_trace(ctx, cfg, W, ops):
    ex = ctx.mk(); ex.hash_order_choice = False
    w = ServerWorld(ctx, ex, None, W, system_stop=(cfg == 'exit'), signals=cfg.startswith('signals'), has_system=(cfg != 'signals-nosystem'))
    out = []
    for op in ops:
        if op in ('stop:g', 'stop:f'): w.user_stop(op == 'stop:g')
        elif op == 'pause': w.user_pause(False)
        elif op == 'resume': w.user_pause(True)
        elif op == 'poll':
            if w.server_done is None: w.poll_server()
        elif op.startswith('sig:'): w.signal({'int': 'Int', 'term': 'Term', 'quit': 'Quit'}[op[4:]])
        elif op.startswith('tick:'): w.tick(int(op[5:]))
        elif op.startswith('pollstop:'): w.poll_fut(w.stops[int(op[9:])])
        elif op.startswith('w'):
            i, how = op[1:].split(':'); w.worker_answer(int(i), how)
        out.append(snapshot(w))
    return ' ; '.join(out)


def random_case(rnd):
    cfg = rnd.choice(['plain', 'exit', 'signals', 'signals-nosystem']); W = rnd.choice([1, 2, 3])
    ops = []; nstop = 0; sig = False
    for _ in range(rnd.randint(3, 12)):
        k = rnd.choice(['poll', 'poll', 'poll', 'stop', 'pause', 'sig', 'worker', 'worker', 'tick', 'pollstop'])
        if k == 'poll': ops.append('poll')
        elif k == 'stop' and nstop < 3: ops.append(rnd.choice(['stop:g', 'stop:f'])); nstop += 1
        elif k == 'pause': ops.append(rnd.choice(['pause', 'resume']))
        elif k == 'sig' and cfg.startswith('signals') and not sig: ops.append('sig:' + rnd.choice(['int', 'term', 'quit'])); sig = True
        elif k == 'worker': ops.append('w%d:%s' % (rnd.randrange(W), rnd.choice(['true', 'true', 'drop'])))
        elif k == 'tick': ops.append('tick:%d' % rnd.choice([0, 100, 299, 300, 1000]))
        elif k == 'pollstop' and nstop: ops.append('pollstop:%d' % rnd.randrange(nstop))
    return cfg, W, ops + ['poll']


def run_native(lines):
    from props import srvnative
    return srvnative.run_schedules(lines, "server")


def differential(rep, ctx, seed, n):
    rnd = random.Random(seed); cases = [random_case(rnd) for _ in range(n)]
    lines = ['cfg=%s W=%d | %s' % (c, W, ' '.join(ops)) for c, W, ops in cases]
    want = []
    for c, W, ops in cases:
        try: want.append(sym_trace(ctx, c, W, ops))
        except Panic as p: want.append('PANIC')
    nat = run_native(lines)
    bad = [(l, a, b) for l, a, b in zip(lines, nat, want) if a.strip() != b.strip()]
    rep.counters['traces_validated_against_impl'] += len(lines) - len(bad)
    if bad: rep.inconc('differential validation mismatch (server side): case %r native %r engine %r' % bad[0])
    return not bad


def history_to_ops(hist):
    cfg, W = 'plain', 1; ops = []
    for h in hist:
        if h.startswith('cfg='):
            for kv in h.split():
                k, v = kv.split('='); cfg, W = (v, W) if k == 'cfg' else (cfg, int(v))
        elif h == 'poll_server': ops.append('poll')
        elif h.startswith('stop('): ops.append('stop:g' if 'graceful' in h else 'stop:f')
        elif h.startswith('SIG'): ops.append('sig:' + h[3:].lower())
        elif h.startswith('worker'): ops.append('w' + h[6:])
        elif h in ('pause', 'resume') or h.startswith('tick:'): ops.append(h)
    return cfg, W, ops


def replay_history(ctx, hist):
    cfg, W, ops = history_to_ops(hist)
    line = 'cfg=%s W=%d | %s' % (cfg, W, ' '.join(ops))
    nat = run_native([line])[0]
    try: sym = sym_trace(ctx, cfg, W, ops)
    except Panic: sym = 'PANIC'
    return line, nat, sym


def replay_file(path):
    import json
    from props import srvworld
    d = json.load(open(path)); ctx = srvrworld.SrvrCtx(srvworld.SrvCtx())
    line, nat, sym = replay_history(ctx, d['history'])
    print('schedule:', line); print('native trace:', nat); print('engine trace:', sym); print('obligation:', d['obligation'], '--', d['what'])
    return 1 if nat.strip() == sym.strip() else 0
