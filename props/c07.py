"""C07 - workers call services only when ready; a failed readiness check rebuilds that service alone.
Engine S on the real <ServerWorker as Future>::poll (with its recursion), check_readiness, restart_service,
WorkerService::created."""
from props.wrkworld import *


def run(rep, tier, seed):
    rep.need_witness('c07_calls', 'c07_service_restarted', 'c07_all_ready_polls')
    q = tier == 'quick'
    runs = [('S1', dict(S=1, steps=4 if q else 6, env_per_step=2, max_conns=3 if q else 4, actions=('conn', 'finish'), checks=(chk_c07,))),
            ('S2', dict(S=2, steps=3 if q else 4, env_per_step=2, max_conns=2 if q else 3, actions=('conn', 'finish'), checks=(chk_c07,))),
            ('S2-two-failures', dict(S=2, steps=3, env_per_step=1, max_conns=1, pend_budget=0, err_budget=2, restart_pend_budget=0, actions=('conn',), checks=(chk_c07,)))]
    if not q:
        runs.append(('S3', dict(S=3, steps=3, env_per_step=2, max_conns=2, pend_budget=1, actions=('conn', 'finish'), checks=(chk_c07,))))
    run_worker_property(rep, 'C07', runs, tier, seed, keep=('C07/', 'C01/worker'))


def replay(path): return replay_file(path)
