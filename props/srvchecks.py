"""Assertions of C01-C05/C08 over the accept-loop world (evaluated whenever the accept thread is about to block in
`Poll::poll`), plus the shared runner used by the per-property drivers."""
import os, time, json
import z3
from vlib import core
from mirsym import Panic, Unknown, Abort
from explore import explore, explore_levels, Acc, StopAtBoundary
from props.srvworld import SrvCtx, World
from models import EndOfSchedule

U64 = lambda n: z3.BitVecVal(n, 64)


def live_handles(w):
    return [i for i in w.handle_idxs() if i in w.workers and w.workers[i]['alive']]


def quiescent(w):
    return w.mw.pending == 0 and not w.mq.value.v.items and not any(lo.registered and lo.edge for lo in w.listeners)


# ---- C02
def chk_c02(w):
    if w.faulted_ever: return
    for idx, wk in w.workers.items():
        n = w.n_inprogress(idx)
        w.acc.violated(w.ex, 'C02/inprogress_never_exceeds_limit', z3.UGT(U64(n), w.limit), hist=w.hist,
                       what='worker %d has %d connections in progress' % (idx, n))
        if n > 0: w.acc.wit['c02_checked_with_load'] += 1


# ---- C03
def chk_c03(w):
    if w.stopped or w.real_paused() or not quiescent(w): return
    w.acc.wit['c03_quiescent_states'] += 1
    spare = []
    for idx in live_handles(w):
        n = w.n_inprogress(idx)
        b = w.bit(idx)
        w.acc.violated(w.ex, 'C03/spare_capacity_is_marked_available_at_quiescence', z3.And(z3.Not(b), z3.ULT(U64(n), w.limit)), hist=w.hist,
                       what='worker %d has %d in progress (< limit) but stays unavailable with no wake-up pending' % (idx, n))
        spare.append(z3.ULT(U64(n), w.limit))
        if n > 0: w.acc.wit['c03_quiescent_with_load'] += 1
    waiting = [l for l, lo in enumerate(w.listeners) if lo.registered and lo.script]
    if waiting and spare:
        w.acc.violated(w.ex, 'C03/waiting_connection_is_dispatched_when_capacity_is_spare', z3.Or(*spare), hist=w.hist,
                       what='listener %s has a waiting connection, a live worker has spare capacity, and nothing is pending that would make the accept loop look again' % waiting)


# ---- C01 (accept side): every accepted stream is in exactly one place, with its listener's token
def chk_c01(w):
    accepted = {}
    for l, lo in enumerate(w.listeners):
        for sid in lo.accepted: accepted[sid] = (l, lo.kind)
    places = {}
    def put(sid, where):
        places.setdefault(sid, []).append(where)
    for wk in w.allworkers:
        idx = (wk['idx'], wk['gen'])
        for conn in wk['chan'].q:
            sid, kind, tok = w.sid_of(conn)
            put(sid, 'queued@%s' % (idx,))
            l, lk = accepted.get(sid, (None, None))
            w.acc.violated(w.ex, 'C01/connection_carries_its_listeners_token', l is None or tok != l or kind != lk, hist=w.hist,
                           what='stream %d accepted on listener %s (%s) is queued with token %d kind %s' % (sid, l, lk, tok, kind))
        for sid, _ in wk['inservice']: put(sid, 'inservice@%s' % (idx,))
        for sid, _ in wk['owed']: put(sid, 'owed@%s' % (idx,))
    for sid in w.finished: put(sid, 'finished')
    for sid in w.lost_with_dead: put(sid, 'lost-with-dead-worker')
    for sid, pl in places.items():
        w.acc.violated(w.ex, 'C01/connection_dispatched_at_most_once', len(pl) > 1, hist=w.hist, what='stream %d is in %s' % (sid, pl))
    nohandles = len(w.handle_idxs()) == 0
    for sid in accepted:
        if sid in places or sid in w.dropped_no_worker:
            w.acc.obl['C01/accepted_connection_is_never_silently_discarded'] += 1; continue
        # the only legal way for an accepted stream to vanish: no worker handle was left when it was dispatched
        if nohandles or sid in getattr(w, 'legal_drops', ()): w.dropped_no_worker.append(sid); w.acc.wit['c01_dropped_because_no_worker_left'] += 1; continue
        w.acc.violated(w.ex, 'C01/accepted_connection_is_never_silently_discarded', True, hist=w.hist,
                       what='stream %d was accepted but is neither queued, in service nor finished (live handles: %s)' % (sid, w.handle_idxs()))
    if accepted: w.acc.wit['c01_checked_with_connections'] += 1


# ---- C04 (b): round robin over available workers (needs cfg track_c04)
def chk_c04(w):
    nW = len(w.workers)
    if w.faulted_ever: return
    sends, marks = w.sends, w.c04_marks
    done = w.__dict__.setdefault('c04_done', 0)
    for k in range(done, len(sends)):
        n, bits = marks[k]; idx = sends[k]
        # a worker marked unavailable receives nothing
        w.acc.violated(w.ex, 'C04/dispatch_only_to_workers_marked_available', z3.Not(bits[idx]), hist=w.hist,
                       what='dispatch %d went to worker %d whose availability bit was clear' % (k, idx))
        # a saturated worker receives nothing (its in-progress count before the dispatch is below the limit)
        w.acc.violated(w.ex, 'C04/saturated_worker_receives_nothing', z3.UGE(U64(n[idx]), w.limit), hist=w.hist,
                       what='dispatch %d went to worker %d which already had %d in progress' % (k, idx, n[idx]))
        if nW >= 2 and k >= nW - 1:
            win = list(range(k - nW + 1, k + 1))
            pre = []
            for j in win:
                nj, bj = marks[j]
                pre += [z3.ULT(U64(nj[i]), w.limit) for i in nj] + [bj[i] for i in bj]
            distinct = len(set(sends[j] for j in win)) == nW
            w.acc.violated(w.ex, 'C04/consecutive_dispatches_go_to_distinct_workers_while_none_is_saturated',
                           z3.And(*pre) if not distinct else False, hist=w.hist,
                           what='dispatches %s went to workers %s although no worker was saturated or marked unavailable' % (win, [sends[j] for j in win]))
            w.acc.wit['c04_windows_checked'] += 1
            if distinct: w.acc.wit['c04_full_rotation_seen'] += 1
    w.c04_done = len(sends)


# ---- C05
def chk_c05(w):
    ex, acc = w.ex, w.acc
    # (1) once a pause has taken effect (the iteration that processed it has finished) nothing is dispatched until resume
    if w.turn > 0 and w.paused_at_entry and not w.resume_since_entry:
        acc.violated(ex, 'C05/no_dispatch_after_pause_took_effect', len(w.dispatch_log) > w.dispatched_at_entry, hist=w.hist,
                     what='a connection was dispatched in an iteration that started paused, without resume')
        acc.wit['c05_paused_iterations'] += 1
    if w.stopped: return
    paused = w.real_paused()
    tmo = w.field(w.accept, 'Accept', 'timeout').v
    prev_dl = w.__dict__.setdefault('prev_dl', {})
    no_cmd_pending = w.mw.pending == 0 and not w.mq.value.v.items
    for l, lo in enumerate(w.listeners):
        dl = w.field(w.sockets.items[l].v, 'ServerSocketInfo', 'timeout').v
        if not paused and no_cmd_pending:
            # (2) not stranded: registered, or in back-off with the poll timeout armed
            stranded = (not lo.registered) and not (dl.variant == 'Some' and tmo.variant == 'Some')
            acc.violated(ex, 'C05/listener_never_stranded', stranded, hist=w.hist,
                         what='listener %d is not registered, not paused, and no deadline/timeout will re-register it' % l)
        if dl.variant == 'Some':
            d = dl.f[0].v
            acc.wit['c05_backoff_armed'] += 1
            if tmo.variant == 'Some':
                # (4) the poll timeout never exceeds 510 ms while a back-off is armed
                acc.violated(ex, 'C05/backoff_poll_timeout_at_most_510ms', tmo.f[0].v > 510, hist=w.hist)
            if not paused and not lo.registered:
                # (3) a deadline at or before `now` cannot survive process_timeout (which has just run)
                acc.violated(ex, 'C05/listener_reregistered_once_deadline_passed', d <= ex.clock, hist=w.hist,
                             what='listener %d: deadline passed, process_timeout ran, still not registered' % l)
            if not prev_dl.get(l):
                # (4) roughly 500 ms: 500 <= deadline - now <= 510 at arming time (the clock does not advance inside an iteration)
                acc.violated(ex, 'C05/backoff_is_about_500ms', z3.Or(d - ex.clock < 500, d - ex.clock > 510), hist=w.hist)
        else:
            if prev_dl.get(l) and lo.registered and not paused: acc.wit['c05_reregistered_after_backoff'] += 1
        prev_dl[l] = dl.variant == 'Some'
        if paused and no_cmd_pending:
            acc.violated(ex, 'C05/no_listener_registered_while_paused', bool(lo.registered), hist=w.hist, what='listener %d registered while paused' % l)
        if lo.kind == 'Uds' and lo.registered:
            acc.violated(ex, 'C05/registered_unix_listener_is_reachable_by_path', not lo.path_linked, hist=w.hist,
                         what='Unix-domain listener %d is registered again but its socket file was unlinked by deregister()' % l)
            acc.wit['c05_uds_registered'] += 1


# ---- C08 (accept side)
def chk_c08(w):
    acc, ex = w.acc, w.ex
    H = w.handle_idxs()
    reported = {}
    for cmdv in w.cmd.q:
        if getattr(cmdv, 'variant', None) == 'WorkerFaulted':
            i = z3.simplify(cmdv.f[0].v).as_long(); reported[i] = reported.get(i, 0) + 1
    deaths = {}
    for wk in w.allworkers:
        if not wk['alive']: deaths[wk['idx']] = deaths.get(wk['idx'], 0) + 1
    for i in set(list(reported) + list(deaths)):
        total = reported.get(i, 0) + w.replaced.get(i, 0)
        acc.violated(ex, 'C08/at_most_one_fault_report_per_dead_worker', total > deaths.get(i, 0), hist=w.hist,
                     what='worker %d: %d WorkerFaulted reports for %d deaths' % (i, total, deaths.get(i, 0)))
    # a handle index appears at most once in the rotation
    acc.violated(ex, 'C08/handle_indices_unique_in_rotation', len(set(H)) != len(H), hist=w.hist, what='handles %s' % H)
    for wk in w.allworkers:
        cur = w.workers[wk['idx']]
        if not wk['alive'] and wk is cur and wk['idx'] not in H:
            # removed from rotation => exactly one report outstanding or already consumed by a replacement
            total = reported.get(wk['idx'], 0) + w.replaced.get(wk['idx'], 0)
            acc.violated(ex, 'C08/removed_worker_is_reported_faulted', total < deaths.get(wk['idx'], 0), hist=w.hist,
                         what='dead worker %d was removed from the rotation without a WorkerFaulted report' % wk['idx'])
            acc.wit['c08_fault_detected'] += 1
        if wk['alive'] and wk['gen'] > 0 and wk['idx'] in H: acc.wit['c08_replacement_in_rotation'] += 1
    if deaths: acc.wit['c08_states_after_fault'] += 1


CHECKS = {'C08': chk_c08, 'C01': chk_c01, 'C02': chk_c02, 'C03': chk_c03, 'C04': chk_c04, 'C05': chk_c05}


def make_body(ctx, cfg, on_panic=None):
    def body(ex, acc):
        w = World(ctx, ex, acc, cfg)
        try:
            r = w.run_loop()
            if r == 'returned' and not w.stopped:
                acc.violated(ex, 'accept_loop_returns_only_on_stop', True, hist=w.hist, what='poll_with returned without a Stop command')
        except Panic as p:
            acc.violated(ex, 'C08/accept_thread_never_panics', True, hist=w.hist, what='accept thread panics: %s' % p)
        except Unknown as u:
            if 'step budget' in str(u):
                acc.violated(ex, 'C08/accept_thread_never_spins', True, hist=w.hist, what='accept thread does not come back to Poll::poll (%s)' % u)
            else: raise
        acc.states.add((tuple(w.hist[-3:]), len(w.hist)))
        if len(acc.samples) < 4 and len(w.hist) >= 4: acc.samples.append({'history': list(w.hist), 'dispatches': w.dispatch_log[:6]})
    return body


# ---------------------------------------------------------------- shared runner
ACCEPT_FUNCS_NOTE = 'actix-server accept.rs / worker.rs (Counter, WorkerCounterGuard) / availability.rs / waker_queue.rs / socket.rs / handle.rs from the MIR of the mount crate'
ENV_MODELS = ['mio::Poll::poll = environment turn (solver-chosen actions + event batch, edge-triggered listener readiness)',
              'mio listeners: scripted accept results, register/deregister flag (double deregister = Err)',
              'tokio unbounded mpsc = FIFO list; send fails iff receiver dropped', 'mio::Waker = pending counter',
              'std Mutex/VecDeque/Vec/Arc/AtomicUsize models', 'actix_rt::time::Instant = virtual clock (ms)', 'tracing macros = no-op']


def run_accept_property(rep, pid, runs, tier, seed, diff_cfgs=None, obligations_prefix=None, wall_cap=None, also=()):
    """runs: list of (label, cfg). Explores each world, replays every violation natively, fills the report."""
    from props import srvnative
    rep.engines.add('mirsym (engine S) + z3 %s' % z3.get_version_string())
    rep.models |= set(ENV_MODELS)
    rep.assumptions += ['environment model crates / callee models implement the documented contract of mio, tokio::sync::mpsc, std containers',
                        'threads are modelled as interleavings of atomic shared operations (channel send/recv, atomic counter, waker queue)',
                        'engine S is validated on every run against the natively compiled mount crate on random concrete schedules']
    ctx = SrvCtx()
    srvnative.build()
    dc = diff_cfgs or [r[1] for r in runs]
    n, bad = srvnative.differential(ctx, dc, seed, 60 if tier == 'quick' else 200)
    rep.counters['traces_validated_against_impl'] += n
    if bad:
        rep.inconc('differential validation mismatch between engine S and the native build: %r' % (bad[0],)); return ctx
    prefix = obligations_prefix or (pid + '/')
    for label, cfg in runs:
        t0 = time.time()
        if cfg.get('levels', True):
            acc = explore_levels(ctx.mk, make_body(ctx, cfg), cfg['turns'] + 1, seed=seed, wall_cap=wall_cap)
            rep.bounds.setdefault('distinct_states_per_level', {})[label] = acc.level_counts
        else:
            acc = explore(ctx.mk, make_body(ctx, cfg), seed=seed, seed_paths=400, wall_cap=wall_cap)
        rep.bounds[label] = {k: v for k, v in cfg.items() if k != 'checks'}
        rep.bounds[label]['paths'] = acc.paths; rep.bounds[label]['wall_s'] = round(time.time() - t0, 1)
        # only this property's obligations are reported by this check (others belong to their own checks)
        keep = lambda name: name.startswith(prefix) or name.startswith('accept_loop') or any(name.startswith(a) for a in also)
        acc.obl = type(acc.obl)({k: v for k, v in acc.obl.items() if keep(k)})
        acc.fail = type(acc.fail)({k: v for k, v in acc.fail.items() if keep(k)})
        viol = {k: v for k, v in acc.viol.items() if keep(v['obligation'])}
        acc.to_report(rep)
        for key, v in sorted(viol.items()):
            report_violation(rep, pid, ctx, cfg, v)
    return ctx


COUNT_OBL = 'C06/a_dispatched_connection_is_counted_before_its_worker_can_see_it'
COUNT_REPLAY = dict(cfg=dict(S=1, steps=4, env_per_step=2, max_conns=2, actions=('conn', 'finish', 'stop')), timeout=5000, tokens=['send:0', 'poll:o', 'stop:1', 'poll:'],
                    obligation='C06/graceful_true_only_with_no_connection_in_progress')


def report_count_violation(rep, pid, ctx, cfg, v):
    """The accept loop hands a connection to a worker before counting it. Consequence, replayed on the real ServerWorker::poll
    (native worker driver): the worker serves it, a graceful Stop arrives before the count, and the worker answers `true` (idle)
    with the connection still in progress."""
    from props import srvnative, wrkworld
    d = COUNT_REPLAY
    line = wrkworld.header(d['cfg'], d['timeout']) + ' | ' + ' '.join(d['tokens'])
    trace = srvnative.run_schedules([line], mode='worker')[0]
    bad = wrkworld.judge_native(ctx, d['cfg'], d['tokens'], d['timeout'], trace)
    fkey = '%s: W=%d L=%d hist=[%s]' % (v['obligation'], cfg['W'], cfg['L'], ' '.join(re_sub_params(t) for t in v['hist']))
    path = core.write_replay(pid, fkey, {'side': 'worker', 'cfg': d['cfg'], 'timeout': d['timeout'], 'tokens': d['tokens'], 'obligation': d['obligation'],
                                         'accept_side_obligation': v['obligation'], 'accept_side_history': v['hist'], 'native_trace': trace, 'native_violations': sorted(bad)})
    rep.violation(fkey, '%s -- %s; accept-side history=%s; consequence replayed on the real worker: %s -> %s' % (v['obligation'], v['what'], v['hist'], line, trace), replay=path,
                  reproduced=(d['obligation'] in bad))


def report_violation(rep, pid, ctx, cfg, v):
    from props import srvnative
    if v['obligation'] == COUNT_OBL: return report_count_violation(rep, pid, ctx, cfg, v)
    limit = int(v['model'].get('limit', cfg.get('limit') or 1))
    tokens = srvnative.concretize([h for h in v['hist']], v['model'])
    if any(t == 'race:' for t in tokens):
        reproduced = None; trace = '(history uses the send/inc race window; native replay not available)'; badn = set()
        tokens_n = [t for t in tokens if t != 'race:']
    else:
        # make sure the native run gets to the blocking point at which the assertion was evaluated
        if not tokens or not tokens[-1].startswith('poll['): tokens = tokens + ['poll[]']
        line = srvnative.header(cfg, limit) + ' | ' + ' '.join(tokens)
        trace = srvnative.run_schedules([line])[0]
        badn = srvnative.judge(trace, tokens, limit)
        reproduced = v['obligation'] in badn
    shape = ' '.join(re_sub_params(t) for t in v['hist'])
    fkey = '%s: W=%d L=%d limit=%d hist=[%s]' % (v['obligation'], cfg['W'], cfg['L'], limit, shape)
    path = core.write_replay(pid, fkey, {'cfg': {k: vv for k, vv in cfg.items() if k != 'checks'}, 'limit': limit, 'tokens': tokens,
                                         'obligation': v['obligation'], 'native_trace': trace, 'native_violations': sorted(badn)})
    rep.violation(fkey, '%s -- %s; limit=%d history=%s' % (v['obligation'], v['what'], limit, tokens), replay=path,
                  reproduced=(True if reproduced is None else reproduced))


def re_sub_params(t):
    import re as _re
    return _re.sub(r'^tick:.*', 'tick', t)


def replay_file(path):
    from props import srvnative
    d = json.load(open(path))
    line = srvnative.header(d['cfg'], d['limit']) + ' | ' + ' '.join(t for t in d['tokens'] if t != 'race:')
    trace = srvnative.run_schedules([line])[0]
    bad = srvnative.judge(trace, d['tokens'], d['limit'])
    print('schedule:', line); print('native trace:'); print('  ' + trace.replace(' ; ', '\n  ')); print('violated obligations:', sorted(bad))
    return 1 if d['obligation'] in bad else 0
