"""Native side of the accept-loop checks: the mount crate (real accept.rs / worker.rs / socket.rs ... of /repo) compiled
natively against the Rust model crates with a scripted environment (mount/actix-server/src/accept/drv.rs).
Used for (a) differential validation of engine S on random concrete schedules and (b) replay of counterexamples."""
import os, random, re, subprocess
import z3
from vlib import core
from mirsym import Exec, Abort, Panic, Unknown
from explore import Acc
from models import MODELS, EndOfSchedule
from props.srvworld import World

_BIN = {}


def build():
    if 'srvdrv' in _BIN: return _BIN['srvdrv']
    d = os.path.join(core.VERIF, 'mount', 'actix-server')
    target = core.workdir('mount-target', 'actix-server-native')
    r = core.sh(['cargo', 'build', '--offline', '--release', '--features', 'drv', '--target-dir', target], cwd=d, timeout=1200)
    if r.returncode != 0:
        raise core.Inconclusive('native build of the actix-server mount crate failed (does /repo compile?):\n' + r.stderr[-2500:])
    _BIN['srvdrv'] = os.path.join(target, 'release', 'srvdrv')
    return _BIN['srvdrv']


def run_schedules(lines, mode='accept'):
    """One trace per schedule; a schedule on which the native accept loop never comes back yields 'SPIN'."""
    b = build(); out = []; rest = list(lines)
    while rest:
        r = core.sh([b, mode], input='\n'.join(rest) + '\n', timeout=120 + 6 * len(rest))
        got = r.stdout.rstrip('\n').split('\n') if r.stdout.strip() else []
        out += got
        if r.returncode == 3 and got and got[-1] == 'SPIN': rest = rest[len(got):]; continue
        if r.returncode != 0 or len(got) != len(rest):
            raise core.Inconclusive('native driver failed (exit %s): %s' % (r.returncode, r.stderr[-800:]))
        rest = []
    return out


def header(cfg, limit): return 'W=%d L=%d limit=%d uds=%d' % (cfg['W'], cfg['L'], limit, 1 if cfg.get('uds') else 0)


def concretize(hist, model):
    out = []
    for h in hist:
        if h.startswith('tick:dt'): out.append('tick:%d' % int(model.get(h[5:], 0)))
        elif h == 'race:': out.append(h)
        else: out.append(h)
    return out


def to_turns(tokens):
    turns, cur = [], []
    for t in tokens:
        if t.startswith('poll['):
            evs = [e for e in t[5:-1].split(',') if e]
            turns.append((cur, evs)); cur = []
        else: cur.append(t)
    return turns, cur


class RandomExec(Exec):
    def pick(self, name, options):
        return options[self.rnd.randrange(len(options))]


def sym_run(ctx, cfg, tokens, limit):
    """Concrete schedule through engine S (script mode). Returns (snapshots, status)."""
    turns, tail = to_turns(tokens)
    c = dict(cfg); c.update(limit=limit, script=turns, turns=len(turns), snapshots=[], checks=(), race=False)
    ex = ctx.mk(); acc = Acc()
    w = World(ctx, ex, acc, c)
    try:
        r = w.run_loop(); status = 'RETURNED' if r == 'returned' else 'END'
    except Panic as p: status = 'PANIC'
    except Unknown as u:
        if 'step budget' in str(u): status = 'SPIN'
        else: raise
    return c['snapshots'], status


def random_schedule(ctx, cfg, rnd, limit):
    c = dict(cfg); c.update(limit=limit, snapshots=[], checks=(), race=False)
    ex = RandomExec(ctx.fns, MODELS, ctx.structs, ctx.enums); ex.wakes = {}; ex.rnd = rnd; ex.step_budget = 60000
    acc = Acc(); w = World(ctx, ex, acc, c)
    # concrete clock increments in random mode
    orig = w.apply_env
    def apply_env(op):
        if op == 'tick': op = 'tick:%d' % rnd.choice([0, 100, 499, 500, 510, 600, 1500]); w.hist.append(op)
        return orig(op)
    w.apply_env = apply_env
    try:
        r = w.run_loop(); status = 'RETURNED' if r == 'returned' else 'END'
    except Panic: status = 'PANIC'
    except Unknown as u:
        if 'step budget' in str(u): status = 'SPIN'
        else: raise
    return list(w.hist), c['snapshots'], status


def norm_status(s):
    s = s.strip()
    return 'PANIC' if s.startswith('PANIC') else s


def differential(ctx, cfgs, seed, n):
    """Random concrete schedules: engine S (Python callee models) vs the natively compiled mount crate (Rust models)."""
    rnd = random.Random(seed); cases = []
    for i in range(n):
        cfg = cfgs[i % len(cfgs)]; limit = rnd.choice([1, 1, 2, 3])
        hist, snaps, status = random_schedule(ctx, cfg, rnd, limit)
        cases.append((cfg, limit, hist, snaps, status))
    lines = [header(c[0], c[1]) + ' | ' + ' '.join(c[2]) for c in cases]
    nat = run_schedules(lines)
    bad = []
    for (cfg, limit, hist, snaps, status), line, tr in zip(cases, lines, nat):
        if tr == 'SPIN':
            if status != 'SPIN': bad.append((line, 'native SPIN', status))
            continue
        parts = [p.strip() for p in tr.split(' ; ')]
        nstat = norm_status(parts[-1]); nsn = parts[:-1]
        if nstat != status or nsn != [s.strip() for s in snaps][:len(nsn)] or (status in ('END', 'RETURNED') and len(nsn) != len(snaps)):
            k = next((i for i, (a, b) in enumerate(zip(nsn, snaps)) if a != b.strip()), None)
            bad.append((line, 'status %s vs %s' % (nstat, status), None if k is None else (nsn[k], snaps[k])))
    return len(cases), bad


# ---------------------------------------------------------------- concrete judge over native snapshots
def parse_snapshot(s):
    d = {'workers': [], 'listeners': []}
    m = re.match(r'T(\d+) paused=(\d) tmo=(\S+) next=(\d+) bits=([0-9a-f]+) wake=(\d+) wq=(\d+) H=\[([\d,]*)\]', s)
    d.update(turn=int(m.group(1)), paused=m.group(2) == '1', tmo=None if m.group(3) == 'none' else int(m.group(3)), next=int(m.group(4)),
             bits=int(m.group(5), 16), wake=int(m.group(6)), wq=int(m.group(7)), H=[int(x) for x in m.group(8).split(',') if x])
    L = lambda x: [int(y) for y in x.split(',') if y.strip()]
    for m in re.finditer(r'W(\d+)g(\d+):a=(\d),q=\[([\d, ]*)\],in=\[([\d, ]*)\],owed=\[([\d, ]*)\],cnt=(\d+)', s):
        d['workers'].append(dict(idx=int(m.group(1)), gen=int(m.group(2)), alive=m.group(3) == '1', q=L(m.group(4)), ins=L(m.group(5)), owed=L(m.group(6)), cnt=int(m.group(7))))
    for m in re.finditer(r'L(\d+):reg=(\d),bl=(\d+),dl=(\S+?),link=(-?\d+),tok=(\d+),acc=(\d+)', s):
        d['listeners'].append(dict(l=int(m.group(1)), reg=m.group(2) == '1', bl=int(m.group(3)), dl=None if m.group(4) == 'none' else int(m.group(4)), link=int(m.group(5)), tok=int(m.group(6)), acc=int(m.group(7))))
    m = re.search(r'cmd=\[([^\]]*)\] clock=(\d+) fin=\[([\d, ]*)\] lost=\[([\d, ]*)\]', s)
    d.update(cmd=[x for x in m.group(1).split(',') if x], clock=int(m.group(2)), fin=L(m.group(3)), lost=L(m.group(4)))
    return d


def judge(trace, tokens, limit):
    """Evaluate the obligations of C01-C05/C08 concretely on a native trace. Returns the set of violated obligation names."""
    bad = set()
    if trace.strip() == 'SPIN': return {'C08/accept_thread_never_spins'}
    parts = [p.strip() for p in trace.split(' ; ')]
    if parts[-1].startswith('PANIC'): bad.add('C08/accept_thread_never_panics')
    snaps = [parse_snapshot(p) for p in parts[:-1]]
    turns, _ = to_turns(tokens)
    faulted = False; prev = None; stopped = False
    disp_prev = 0; deaths = {}; replaced = {}; dropped_ok = set()
    for k, sn in enumerate(snaps):
        ops_before = turns[k - 1][0] if k >= 1 and k - 1 < len(turns) else []
        evs_before = turns[k - 1][1] if k >= 1 and k - 1 < len(turns) else []
        if any(o.startswith('die') for o in ops_before): faulted = True
        for o in ops_before:
            if o.startswith('die'): deaths[int(o[3:])] = deaths.get(int(o[3:]), 0) + 1
            if o.startswith('replace'): replaced[int(o[7:])] = replaced.get(int(o[7:]), 0) + 1
        reported = {}
        for c in sn['cmd']:
            if c.startswith('F'): reported[int(c[1:])] = reported.get(int(c[1:]), 0) + 1
        for i in set(list(reported) + list(deaths)):
            if reported.get(i, 0) + replaced.get(i, 0) > deaths.get(i, 0): bad.add('C08/at_most_one_fault_report_per_dead_worker')
        if len(set(sn['H'])) != len(sn['H']): bad.add('C08/handle_indices_unique_in_rotation')
        latest = {}
        for wk in sn['workers']: latest[wk['idx']] = wk
        for i, wk in latest.items():
            if not wk['alive'] and i not in sn['H'] and reported.get(i, 0) + replaced.get(i, 0) < deaths.get(i, 0):
                bad.add('C08/removed_worker_is_reported_faulted')
        if 'stop' in ops_before: stopped = True
        cur = {}
        for wk in sn['workers']: cur[wk['idx']] = wk
        n = {i: len(wk['q']) + len(wk['ins']) for i, wk in cur.items()}
        if not faulted:
            for i in n:
                if n[i] > limit: bad.add('C02/inprogress_never_exceeds_limit')
        # quiescence as engine S defines it: no wake pending, queue empty; listener edges: a registered listener whose
        # backlog grew during the last env turn and was not in the delivered batch still has an undelivered event
        edge = False
        for ls in sn['listeners']:
            l = ls['l']
            grew = any(o.startswith('connect%d' % l) or o.startswith('aerr%d:' % l) for o in ops_before)
            if ls['reg'] and grew and ('lst%d' % l) not in evs_before: edge = True
            if prev is not None and ls['reg'] and not prev['listeners'][l]['reg'] and ls['bl'] > 0: edge = True
        quiet = sn['wake'] == 0 and sn['wq'] == 0 and not edge
        if quiet and not sn['paused'] and not stopped:
            spare = False
            for i in sn['H']:
                if i in cur and cur[i]['alive']:
                    if n[i] < limit:
                        spare = True
                        if not (sn['bits'] >> i) & 1: bad.add('C03/spare_capacity_is_marked_available_at_quiescence')
            if spare and any(ls['reg'] and ls['bl'] > 0 for ls in sn['listeners']):
                bad.add('C03/waiting_connection_is_dispatched_when_capacity_is_spare')
        # C05
        ndisp = sum(len(wk['q']) + len(wk['ins']) + len(wk['owed']) for wk in sn['workers']) + len(sn['fin']) + len(sn['lost'])
        if prev is not None and prev['paused'] and 'resume' not in ops_before and ndisp > disp_prev: bad.add('C05/no_dispatch_after_pause_took_effect')
        disp_prev = ndisp
        if not stopped:
            for ls in sn['listeners']:
                if not sn['paused'] and sn['wake'] == 0 and sn['wq'] == 0 and not ls['reg'] and not (ls['dl'] is not None and sn['tmo'] is not None):
                    bad.add('C05/listener_never_stranded')
                if ls['dl'] is not None:
                    if sn['tmo'] is not None and sn['tmo'] > 510: bad.add('C05/backoff_poll_timeout_at_most_510ms')
                    if not sn['paused'] and ls['dl'] <= sn['clock'] and not ls['reg']: bad.add('C05/listener_reregistered_once_deadline_passed')
                    if (prev is None or prev['listeners'][ls['l']]['dl'] is None) and not (500 <= ls['dl'] - sn['clock'] <= 510): bad.add('C05/backoff_is_about_500ms')
                if ls['reg'] and sn['paused']: bad.add('C05/no_listener_registered_while_paused')
                if ls['link'] == 0 and ls['reg']: bad.add('C05/registered_unix_listener_is_reachable_by_path')
        # C01
        places = {}
        for wk in sn['workers']:
            for sid in wk['q'] + wk['ins'] + wk['owed']: places.setdefault(sid, []).append(wk['idx'])
        for sid in sn['fin'] + sn['lost']: places.setdefault(sid, []).append('done')
        if any(len(v) > 1 for v in places.values()): bad.add('C01/connection_dispatched_at_most_once')
        for ls in sn['listeners']:
            for k in range(ls['acc']):
                sid = 1000 * (ls['l'] + 1) + k
                if sid in places or sid in dropped_ok: continue
                if not sn['H']: dropped_ok.add(sid); continue      # no worker handle left: dropping is allowed
                bad.add('C01/accepted_connection_is_never_silently_discarded')
        prev = sn
    return bad
