"""C09 - System stop delivers the exit code and stops every arbiter (engine S, partial: the SystemController state machine
and System::stop_with_code; thread-level clauses are not decidable here, see DESIGN.md)."""
from props import rtworld


def run(rep, tier, seed):
    rep.need_witness('c09_exit_delivered', 'c09_two_stops', 'c09_arbiter_stopped')
    rtworld.run_rt(rep, 'C09', tier, seed)


def replay(path): return rtworld.replay_file(path)
