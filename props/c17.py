"""C17 - Counter and LocalWaker: capacity gate with a guaranteed wake on release.  Engine K over the real actix-utils
counter and local-waker: symbolic operation sequences, symbolic capacity 0..3, two counting wakers with identities."""
from vlib import kani, core


def run(rep, tier, seed):
    q = tier == 'quick'
    rep.models |= {'none: real actix-utils, real local-waker, real Rc/Cell; wakers are counting test wakers'}
    rep.bounds.update({'counter_ops': 6 if q else 9, 'local_waker_ops': 6, 'capacity': '0..3 symbolic', 'guards': '<= 4', 'wakers': 2})
    rep.functions |= {'actix_utils::counter::{Counter::{new,get,available,total,clone}, CounterGuard::drop}', 'local_waker::LocalWaker::{register,wake,take}'}
    kani.check(rep, 'C17', 'utils', lambda h: h.startswith('c17_'), () if q else ('thorough',), wall=900 if q else 3000)


def replay(path): return kani.replay_file(path)
