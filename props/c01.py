"""C01 - each accepted connection reaches exactly one call of its listener's service.
Accept side (engine S, real accept loop): every accepted stream is enqueued at exactly one worker with its listener's
token, never twice, never silently dropped.  Worker side (engine S, real ServerWorker::poll): the k-th queued connection
is `call`ed exactly once on services[token]; connections still queued at shutdown are released with a counter guard."""
from props.srvchecks import *


def run(rep, tier, seed):
    rep.need_witness('c01_checked_with_connections')
    q = tier == 'quick'
    ck = (chk_c01,)
    runs = [('L2-tcp-uds', dict(W=2, L=2, uds=True, turns=8, env_per_turn=2, max_conns=4 if q else 5, actions=('connect', 'finish'), track_c01=True, checks=ck)),
            ('pause-stop', dict(W=1, L=2, limit=2, turns=5 if q else 6, env_per_turn=2, max_conns=3, actions=('connect', 'finish', 'pause', 'resume', 'stop'), track_c01=True, checks=ck)),
            ('fault', dict(W=2, L=1, turns=5 if q else 6, env_per_turn=2, max_conns=4, actions=('connect', 'finish', 'die', 'replace'), track_c01=True, checks=ck))]
    if not q:
        runs += [('W3-L2', dict(W=3, L=2, turns=5, env_per_turn=2, max_conns=4, actions=('connect', 'finish'), track_c01=True, pickup=True, checks=ck))]
    ctx = run_accept_property(rep, 'C01', runs, tier, seed)
    try:
        from props import wrkworld
    except ImportError:
        rep.inconc('worker-side part of C01 not available'); return
    wrkworld.run_c01_worker_side(rep, tier, seed)


def replay(path):
    d = json.load(open(path))
    if d.get('side') == 'worker':
        from props import wrkworld
        return wrkworld.replay_file(path)
    return replay_file(path)
