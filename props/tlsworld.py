"""Engine-S world for the actix-tls acceptor service (C18): the real `Acceptor::{new,set_handshake_timeout,new_service}`,
`AcceptorService::{poll_ready,call}` and `AcceptFut::poll` (rustls-0_23 flavour) from the MIR of actix-tls compiled against the
model tokio-rustls / actix-rt / tokio, plus the real actix-utils `Counter` and local-waker. The TLS back end's handshake
future is a scripted object whose every answer (Pending / Ok / Err) is a solver choice; the clock is symbolic."""
import os, json, random, time
import z3
from vlib import core, mir
from mirsym import parse_mir, Exec, Ref, LCell, Cell, Enum, Struct, Tuple, Abort, Panic, Unknown, UNIT, Opaque
import models, srvmodels
from models import MODELS, parse_layouts, ContextObj, WakerObj, SleepObj, call_closure, target
from explore import explore_levels, boundary, Acc

_BIN = {}


def build():
    if 'tlsdrv' in _BIN: return _BIN['tlsdrv']
    d = os.path.join(core.VERIF, 'mount', 'actix-tls')
    tgt = core.workdir('mount-target', 'actix-tls-native')
    r = core.sh(['cargo', 'build', '--offline', '--release', '--features', 'drv', '--target-dir', tgt], cwd=d, timeout=1800)
    if r.returncode != 0: raise core.Inconclusive('native build of the actix-tls mount workspace failed:\n' + r.stderr[-2500:])
    _BIN['tlsdrv'] = os.path.join(tgt, 'release', 'tlsdrv'); return _BIN['tlsdrv']


def run_native(lines):
    r = core.sh([build()], input='\n'.join(lines) + '\n', timeout=300)
    out = r.stdout.rstrip('\n').split('\n')
    if r.returncode != 0 or len(out) != len(lines): raise core.Inconclusive('native tls driver failed: ' + r.stderr[-800:])
    return out


class HsObj:
    """scripted handshake future (tokio_rustls::Accept)"""
    canon_fields = ('idx', 'done')
    def __init__(self, w, idx): self.w, self.idx, self.done = w, idx, False
    def model_drop(self, ex): pass


class TlsCtx:
    def __init__(self, flavour='rustls_0_23'):
        self.flavour = flavour
        txt = mir.dep_of_mount('actix-tls', 'actix-tls') + '\n' + mir.repo_crate('actix-utils') + '\n' + mir.repo_crate('local-waker')
        self.fns = parse_mir(txt)
        R = core.REPO
        self.structs, self.enums = parse_layouts([R + '/actix-tls/src/accept/mod.rs', R + '/actix-tls/src/accept/%s.rs' % flavour, R + '/actix-utils/src/counter.rs',
                                                  R + '/local-waker/src/lib.rs', R + '/actix-utils/src/future/ready.rs'])
        self.structs.update({'TlsStream': [0], 'Counter': [0], 'CounterGuard': [0]})
        rx = Exec(self.fns, MODELS, self.structs, self.enums)
        def M(ty, meth, tr=None, contains='accept/%s.rs' % flavour):
            c = [f for n, f in self.fns.items() if (n.endswith('::' + meth)) and contains in n]
            c = [f for f in c if rx.resolve((ty, tr, meth)) is f or True]
            cand = [g for g in c if g.impl_loc and _impl_is(rx, g, ty, tr)]
            f = cand[0] if len(cand) == 1 else None
            if f is None: raise core.Inconclusive('cannot locate %s::%s in the MIR dump of actix-tls' % (ty, meth))
            return f
        self.NEW = M('Acceptor', 'new'); self.CLONE = M('Acceptor', 'clone', 'Clone'); self.SET_TO = M('Acceptor', 'set_handshake_timeout'); self.NEW_SERVICE = M('Acceptor', 'new_service', 'ServiceFactory')
        self.POLL_READY = M('AcceptorService', 'poll_ready', 'Service'); self.CALL = M('AcceptorService', 'call', 'Service'); self.FUT_POLL = M('AcceptFut', 'poll', 'Future')
        self.COUNTER_NEW = M('Counter', 'new', None, 'counter.rs')
        for need in ('Acceptor', 'AcceptorService', 'AcceptFut', 'CounterInner', 'LocalWaker'):
            if need not in self.structs: raise core.Inconclusive('layout of %s not found' % need)

    def mk(self):
        ex = Exec(self.fns, MODELS, self.structs, self.enums); ex.wakes = {}
        return ex


def _impl_is(rx, f, ty, tr):
    src = rx.impl_line(f.impl_loc)
    import re
    mm = re.match(r'\s*(unsafe )?impl(<.*?>)? (?:(.*?) for )?([\w:]+)', src)
    if not mm: return False
    ftr = rx.adt_name(mm.group(3)) if mm.group(3) else None
    return rx.adt_name(mm.group(4)) == ty and (tr is None or ftr == tr)


class TlsWorld:
    def __init__(self, ctx, ex, acc, limit=None, timeout=None):
        self.c, self.ex, self.acc = ctx, ex, acc
        ex.clock = z3.IntVal(1000); ex.tlsworld = self
        if limit is None:
            self.limit = z3.BitVec('limit', 64); ex.solver.add(self.limit >= 1, z3.ULE(self.limit, 1 << 16))
        else: self.limit = z3.BitVecVal(limit, 64)
        if timeout is None:
            self.timeout = z3.Int('handshake_timeout_ms'); ex.solver.add(self.timeout >= 100, self.timeout <= 5000)
        else: self.timeout = z3.IntVal(timeout)
        # the thread-local MAX_CONN_COUNTER: created by the real Counter::new with the configured maximum
        ex.tls_counter = ex.run(ctx.COUNTER_NEW, [self.limit])
        acceptor = ex.run(ctx.NEW, [Opaque('ServerConfig')])
        ex.run(ctx.SET_TO, [Ref(LCell(Cell(acceptor))), self.timeout])
        # a server clones its service factory once per worker: the service is built from a CLONE of the configured acceptor (a clone
        # must behave like the original); the native driver does the same
        acceptor = ex.run(ctx.CLONE, [Ref(LCell(Cell(acceptor)))])
        rdy = ex.run(ctx.NEW_SERVICE, [Ref(LCell(Cell(acceptor))), UNIT])
        svc = _unwrap_ready(rdy)
        if svc.variant != 'Ok': raise core.Inconclusive('Acceptor::new_service failed in the model')
        self.svc = svc.f[0].v
        self.futs = []            # per call: dict(fut, hs, start, alive)
        self.hist = []; ex.hist = self.hist; self.out = []
        self.parked = None        # waker id of the last poll_ready that returned Pending
        self.pend_budget = 3

    def live(self): return sum(1 for f in self.futs if f['alive'])

    def _wakes(self): return dict(self.ex.wakes)

    def _delta(self, w0):
        d = {k: v - w0.get(k, 0) for k, v in self.ex.wakes.items() if v != w0.get(k, 0)}
        return ','.join('w%d=%d' % kv for kv in sorted(d.items())), d

    def ready(self, wid):
        w0 = self._wakes()
        r = self.ex.run(self.c.POLL_READY, [Ref(LCell(Cell(self.svc))), Ref(LCell(Cell(ContextObj(WakerObj(wid)))))])
        res = 'pending' if r.variant == 'Pending' else ('ok' if r.f[0].v.variant == 'Ok' else 'err')
        ds, d = self._delta(w0); self.hist.append('ready:%d' % wid); self.out.append('R=%s/%s' % (res, ds))
        return res, d

    def call(self):
        idx = len(self.futs); w0 = self._wakes()
        self.next_hs = HsObj(self, idx)
        fut = self.ex.run(self.c.CALL, [Ref(LCell(Cell(self.svc))), Struct('TcpStream', [z3.BitVecVal(7, 64)])])
        self.futs.append(dict(fut=fut, hs=self.next_hs, start=self.ex.clock, alive=True))
        ds, d = self._delta(w0); self.hist.append('call'); self.out.append('C/%s' % ds)
        return d

    def poll(self, i, ans=None):
        f = self.futs[i]; w0 = self._wakes()
        self.script_ans = ans; self.last_ans = None
        r = self.ex.run(self.c.FUT_POLL, [Ref(LCell(Cell(f['fut']))), Ref(LCell(Cell(ContextObj(WakerObj(14)))))])
        if r.variant == 'Pending': res = 'pending'
        else:
            v = r.f[0].v
            if v.variant == 'Ok': res = 'ok'
            else: res = {'Tls': 'tls', 'Timeout': 'timeout'}.get(v.f[0].v.variant, 'other')
            f['alive'] = False; self.ex.drop(f['fut'])
        ds, d = self._delta(w0); self.hist.append('poll:%d:%s' % (i, self.last_ans or '-')); self.out.append('P=%s/%s' % (res, ds))
        return res, d

    def drop(self, i):
        f = self.futs[i]; w0 = self._wakes(); f['alive'] = False; self.ex.drop(f['fut'])
        ds, d = self._delta(w0); self.hist.append('drop:%d' % i); self.out.append('D/%s' % ds)
        return d

    def tick(self, ms=None):
        if ms is None:
            name = 'dt%d' % len(self.hist); dt = z3.Int(name); self.ex.solver.add(dt >= 0, dt <= 6000); self.hist.append('tick:' + name)
        else: dt = z3.IntVal(ms); self.hist.append('tick:%d' % ms)
        self.ex.clock = z3.simplify(self.ex.clock + dt); self.out.append('T/')

    def hs_answer(self, hs):
        if self.script_ans is not None: a = self.script_ans
        else:
            opts = ['o', 'e'] + (['p'] if self.pend_budget > 0 else [])
            a = self.ex.pick('hs', opts)
            if a == 'p': self.pend_budget -= 1
        self.last_ans = a
        return a

    def roots(self):
        return [self.svc, self.ex.tls_counter, [(f['fut'] if f['alive'] else None, f['start'], f['alive']) for f in self.futs], self.ex.clock, self.parked, self.pend_budget,
                self.timeout, dict(self.ex.wakes)]


def _unwrap_ready(rdy):
    # actix_utils::future::Ready { val: Option<T> }
    v = rdy.f[0].v
    if not isinstance(v, Enum) or v.variant != 'Some': raise core.Inconclusive('unexpected Ready value')
    return v.f[0].v


# ---------------------------------------------------------------- callee models specific to the TLS world
def m_localkey_with(ex, a, t):
    return call_closure(ex, a[1], [Ref(LCell(Cell(ex.tls_counter)))])
def m_tls_accept(ex, a, t): return ex.tlsworld.next_hs
def m_hs_poll(ex, a, t):
    hs = a[0]
    while isinstance(hs, Ref): hs = hs.lv.get()
    if hs.done: raise Panic('handshake future polled after completion')
    ans = ex.tlsworld.hs_answer(hs)
    if ans == 'p': return Enum('Poll', 'Pending')
    hs.done = True
    if ans == 'o': return Enum('Poll', 'Ready', [Enum('Result', 'Ok', [Struct('ServerTlsStream', [Opaque('io')])])])
    return Enum('Poll', 'Ready', [Enum('Result', 'Err', [models.IoErr(Enum('ErrorKind', 'Other'))])])
def m_hs_poll_unit(ex, a, t):
    r = m_hs_poll(ex, a, t)
    if r.variant == 'Ready' and r.f[0].v.variant == 'Ok': return Enum('Poll', 'Ready', [Enum('Result', 'Ok', [UNIT])])
    return r
def m_poll_map(ex, a, t):
    p, clo = a
    if p.variant != 'Ready': return p
    return Enum('Poll', 'Ready', [call_closure(ex, clo, [p.f[0].v])])
def m_pin_new(ex, a, t): return a[0]
def m_sleep_tls(ex, a, t): return SleepObj(z3.simplify(ex.clock + a[0]))
def m_pin_set(ex, a, t): a[0].lv.set(a[1]); return UNIT
def m_pin_new_unchecked(ex, a, t): return a[0]
def m_pin_get_unchecked_mut(ex, a, t): return a[0]

MODELS[:0] = [
    (r'LocalKey::<.*>::with::<', m_localkey_with), (r'TlsAcceptor::accept::<', m_tls_accept),
    (r'^<&mut (tokio_rustls::)?Accept<.*> as Future>::poll$|^<(tokio_rustls::)?Accept<.*> as Future>::poll$', m_hs_poll),
    # OpenSSL flavour: SslAcceptor::context / Ssl::new are opaque; tokio_openssl::SslStream::new creates the scripted handshake object
    (r'^<SslAcceptor as Clone>::clone$', lambda ex, a, t: target(a[0])),
    (r'SslAcceptor::context$', lambda ex, a, t: Opaque('ssl-context')), (r'(?:^|::)Ssl::new$', lambda ex, a, t: Enum('Result', 'Ok', [Opaque('ssl')])),
    (r'SslStream::<.*>::new$', lambda ex, a, t: Enum('Result', 'Ok', [ex.tlsworld.next_hs])),
    (r'SslStream::<.*>::poll_accept$', lambda ex, a, t: m_hs_poll_unit(ex, a, t)),
    (r'^Poll::<.*>::map::<', m_poll_map), (r'^Pin::<.*>::new$', m_pin_new), (r'^Pin::<.*>::new_unchecked$', m_pin_new_unchecked),
    (r'^Pin::<.*>::get_unchecked_mut$', m_pin_get_unchecked_mut), (r'(?:^|::)sleep$', m_sleep_tls),
]


# ---------------------------------------------------------------- exploration body and assertions
def make_body(ctx, steps, max_calls):
    def body(ex, acc):
        w = TlsWorld(ctx, ex, acc)
        nready = 0; ready_ok = False
        for step in range(steps):
            boundary(ex, acc, step + 1, w.roots() + [ready_ok, nready])
            alive = [i for i, f in enumerate(w.futs) if f['alive']]
            ops = ['ready'] + (['call'] if ready_ok and len(w.futs) < max_calls else []) + ['poll:%d' % i for i in alive] + ['drop:%d' % i for i in alive] + ['tick', 'end']
            op = ex.pick('tls', ops)
            if op == 'end': break
            acc.transitions += 1
            live_before = w.live()
            if op == 'ready':
                wid = nready; nready += 1
                res, d = w.ready(wid)
                acc.violated(ex, 'C18/not_ready_exactly_while_handshakes_in_progress_reach_the_maximum', z3.BoolVal(res == 'pending') != z3.UGE(z3.BitVecVal(live_before, 64), w.limit), hist=w.hist,
                             what='poll_ready returned %s with %d handshakes in progress' % (res, live_before))
                acc.violated(ex, 'C18/readiness_never_fails', res == 'err', hist=w.hist)
                ready_ok = res == 'ok'
                if res == 'pending': w.parked = wid; acc.wit['c18_not_ready'] += 1
            elif op == 'call':
                w.call(); ready_ok = False
            elif op.startswith('poll:'):
                i = int(op[5:]); f = w.futs[i]
                res, d = w.poll(i)
                deadline = f['start'] + w.timeout
                late = ex.clock >= deadline
                ans = w.last_ans
                acc.violated(ex, 'C18/stream_only_from_a_completed_handshake', res == 'ok' and ans != 'o', hist=w.hist)
                acc.violated(ex, 'C18/tls_error_only_from_a_failed_handshake', res == 'tls' and ans != 'e', hist=w.hist)
                acc.violated(ex, 'C18/completed_handshake_is_reported', ans == 'o' and res != 'ok', hist=w.hist, what='handshake completed but the call returned %s' % res)
                acc.violated(ex, 'C18/failed_handshake_is_reported', ans == 'e' and res != 'tls', hist=w.hist, what='handshake failed but the call returned %s' % res)
                if ans == 'p':
                    # exactly at the first poll at or after the deadline: Timeout, never Pending; before it: Pending, never Timeout
                    acc.violated(ex, 'C18/timeout_error_once_the_handshake_timeout_has_elapsed', z3.And(late, z3.BoolVal(res != 'timeout')), hist=w.hist,
                                 what='handshake pending at or after the deadline but the call returned %s' % res)
                    acc.violated(ex, 'C18/no_timeout_before_the_handshake_timeout', z3.And(z3.Not(late), z3.BoolVal(res != 'pending')), hist=w.hist,
                                 what='handshake pending before the deadline but the call returned %s' % res)
                    if res == 'timeout': acc.wit['c18_timed_out'] += 1
                if res != 'pending': _wake_check(w, acc, live_before, d, 'completion')
                if res == 'ok': acc.wit['c18_stream'] += 1
            elif op.startswith('drop:'):
                d = w.drop(int(op[5:])); _wake_check(w, acc, live_before, d, 'drop')
            elif op == 'tick': w.tick()
        boundary(ex, acc, steps + 1, w.roots() + [ready_ok, nready])
        if len(acc.samples) < 3 and len(w.hist) >= 4: acc.samples.append(' '.join(w.hist))
    return body


def _wake_check(w, acc, live_before, d, why):
    """A handshake ended (success, error, timeout or drop): if that took the count from the maximum to below it, the task
    that was last told 'not ready' must be woken (at least once)."""
    if w.parked is None: return
    crossing = z3.BitVecVal(live_before, 64) == w.limit
    woken = d.get(w.parked, 0) >= 1
    acc.violated(w.ex, 'C18/waiting_task_woken_when_a_handshake_ends', z3.And(crossing, z3.BoolVal(not woken)), hist=w.hist,
                 what='a handshake ended (%s) with the service at its maximum, but the waiting task %d was not woken' % (why, w.parked))
    if woken: acc.wit['c18_woken_on_release'] += 1; w.parked = None


def sym_trace(ctx, limit, timeout, tokens):
    ex = ctx.mk(); w = TlsWorld(ctx, ex, Acc(), limit=limit, timeout=timeout)
    for t in tokens:
        p = t.split(':')
        if p[0] == 'ready': w.ready(int(p[1]))
        elif p[0] == 'call': w.call()
        elif p[0] in ('poll', 'drop'):
            # the random generator does not know that a future polled with a Pending handshake answer may still have
            # completed (timeout): such a schedule would poll / drop a finished future, which is not a schedule of the property
            if not w.futs[int(p[1])]['alive']: return None
            if p[0] == 'poll': w.poll(int(p[1]), p[2])
            else: w.drop(int(p[1]))
        elif p[0] == 'tick': w.tick(int(p[1]))
    return ' '.join(w.out)


def random_tokens(rnd):
    toks = []; futs = []; nready = 0; ready = False
    for _ in range(rnd.randint(3, 12)):
        alive = [i for i, a in enumerate(futs) if a]
        k = rnd.choice(['ready', 'ready', 'call', 'poll', 'poll', 'drop', 'tick'])
        if k == 'ready': toks.append('ready:%d' % nready); nready = (nready + 1) % 13; ready = True
        elif k == 'call' and len(futs) < 4: toks.append('call'); futs.append(True)
        elif k == 'poll' and alive:
            i = rnd.choice(alive); a = rnd.choice('ppoe'); toks.append('poll:%d:%s' % (i, a))
            if a != 'p': futs[i] = False
            else: pass
        elif k == 'drop' and alive: i = rnd.choice(alive); toks.append('drop:%d' % i); futs[i] = False
        elif k == 'tick': toks.append('tick:%d' % rnd.choice([0, 50, 99, 100, 500, 3000]))
    return toks


def run_c18(rep, tier, seed):
    for flavour in ('rustls_0_23', 'openssl'):
        run_c18_flavour(rep, tier, seed, flavour)


def run_c18_flavour(rep, tier, seed, flavour):
    rep.engines.add('mirsym (engine S) + z3 %s' % z3.get_version_string())
    rep.models |= {'tokio_rustls::{TlsAcceptor::accept, Accept} = scripted handshake future (every answer a solver choice)', 'openssl::ssl::{SslAcceptor::context, Ssl::new} = opaque; tokio_openssl::SslStream::{new, poll_accept} = the same scripted handshake', 'actix_rt::time::{sleep, Sleep} on the virtual clock',
                   'thread_local MAX_CONN_COUNTER = one Counter per world, built by the real Counter::new with a symbolic maximum', 'Pin constructors = identity', 'Rc / Cell / Waker models'}
    rep.assumptions += ['the rustls-0_23 and OpenSSL acceptors are encoded (native-tls and the older rustls acceptors have the same shape but are NOT covered)',
                        'everything inside the TLS library (handshake contents, data integrity of the stream) is outside this technique',
                        'engine S is validated on every run against the real actix-tls compiled natively with the model back end']
    ctx = TlsCtx(flavour); build()
    rnd = random.Random(seed); n = 60 if tier == 'quick' else 200
    cases = []
    for _ in range(n):
        toks = random_tokens(rnd); limit = rnd.choice([1, 1, 2, 3]); timeout = rnd.choice([100, 500, 3000])
        # a timed-out future completes on a Pending handshake answer: keep the scripted liveness consistent by replaying through engine S first
        cases.append((limit, timeout, toks))
    sym = []
    for limit, timeout, toks in cases:
        try: sym.append(sym_trace(ctx, limit, timeout, toks))
        except (IndexError, AttributeError, TypeError): sym.append(None)
    lines = ['flavour=%s limit=%d timeout=%d | %s' % (flavour, l, t, ' '.join(tk)) for (l, t, tk), s in zip(cases, sym) if s is not None]
    nat = run_native(lines) if lines else []
    k = 0; bad = []
    for (l, t, tk), s in zip(cases, sym):
        if s is None: continue
        if nat[k].strip() != s.strip(): bad.append((lines[k], nat[k], s))
        k += 1
    rep.counters['traces_validated_against_impl'] += k
    if bad: rep.inconc('differential validation mismatch (actix-tls acceptor): %r' % (bad[0],)); return
    steps, calls = (8, 3) if tier == "quick" else (9, 3)
    t0 = time.time()
    acc = explore_levels(ctx.mk, make_body(ctx, steps, calls), steps + 1, seed=seed)
    rep.bounds[flavour] = dict({'operations': steps, 'concurrent_calls': calls, 'limit': 'symbolic 1..65536', 'handshake_timeout_ms': 'symbolic 100..5000', 'clock_increment_ms': 'symbolic 0..6000 per tick',
                       'pending_answers': 3, 'distinct_states_per_level': acc.level_counts, 'wall_s': round(time.time() - t0, 1)})
    acc.to_report(rep)
    for key, v in sorted(acc.viol.items()):
        m = v['model']; toks = []
        for h in v['hist']:
            if h.startswith('tick:dt'): toks.append('tick:%d' % int(m.get(h[5:], 0)))
            else: toks.append(h)
        limit = int(m.get('limit', 1)); timeout = int(m.get('handshake_timeout_ms', 100))
        line = 'flavour=%s limit=%d timeout=%d | %s' % (flavour, limit, timeout, ' '.join(toks))
        nat1 = run_native([line])[0]
        try: sym1 = sym_trace(ctx, limit, timeout, toks)
        except Exception: sym1 = None
        fkey = '%s: %s ops=[%s]' % (v['obligation'], flavour, ' '.join(h.split(':')[0] if h.startswith('tick') else h for h in v['hist']))
        path = core.write_replay('C18', fkey, {'line': line, 'obligation': v['obligation'], 'native_trace': nat1, 'engine_trace': sym1})
        rep.violation(fkey, '%s -- %s; schedule: %s; native trace: %s' % (v['obligation'], v['what'], line, nat1), replay=path, reproduced=(sym1 is not None and nat1.strip() == sym1.strip()))


def replay_file(path):
    d = json.load(open(path)); nat1 = run_native([d['line']])[0]
    print('schedule:', d['line']); print('native trace:', nat1)
    return 1 if nat1.strip() == (d.get('engine_trace') or '').strip() else 0
