"""Worker world for engine S: the real `<ServerWorker as Future>::poll` (recursion, check_readiness, restart_service,
shutdown arm) executed from the MIR of the mount crate against scripted `dyn Service` / `dyn InternalServiceFactory`
objects. Between polls the environment queues connections (symbolic tokens), finishes connections (drops the guard a
service call received), sends Stop commands and advances the virtual clock; every readiness answer is a solver choice."""
import os, json, random, time
import z3
from vlib import core
from mirsym import Exec, Ref, LCell, Cell, Enum, Struct, Tuple, Abort, Panic, Unknown, UNIT
from models import (MODELS, ChanObj, RxObj, VecObj, RcPtr, RcBox, AtomicObj, MutexObj, DequeObj, MioWaker, BoxObj, OneshotTx, ContextObj, WakerObj)
from explore import explore_levels, boundary, Acc, StopAtBoundary
from props.srvworld import SrvCtx


class ReadyFut:
    def __init__(self, inner): self.inner = inner


class Svc:
    canon_fields = ('id', 'gen')
    def __init__(self, w, sid, gen): self.w, self.id, self.gen = w, sid, gen
    def poll_ready(self, ex):
        w = self.w
        a = w.next_answer('ready', self.id)
        w.log.append('ready:%d:%d:%s' % (self.id, self.gen, a))
        if a == 'p': return Enum('Poll', 'Pending')
        if a == 'e': return Enum('Poll', 'Ready', [Enum('Result', 'Err', [UNIT])])
        return Enum('Poll', 'Ready', [Enum('Result', 'Ok', [UNIT])])
    def call(self, ex, arg):
        guard, io = arg.f[0].v, arg.f[1].v
        sid = z3.simplify(io.f[0].v.f[0].v).as_long()
        self.w.log.append('call:%d:%d:%d' % (self.id, self.gen, sid))
        self.w.guards.append((sid, guard))
        return ReadyFut(Enum('Result', 'Ok', [UNIT]))
    def model_drop(self, ex): pass


class Factory:
    canon_fields = ('id',)
    def __init__(self, w, sid): self.w, self.id = w, sid
    def create(self, ex):
        w = self.w; w.gens[self.id] += 1; gen = w.gens[self.id]
        w.log.append('create:%d:%d' % (self.id, gen))
        fac = self
        class Fut:
            canon_fields = ()
            def poll(s, ex):
                a = w.next_answer('restart', fac.id)
                if a == 'w':
                    w.log.append('restart-pending:%d' % fac.id); return Enum('Poll', 'Pending')
                return Enum('Poll', 'Ready', [Enum('Result', 'Ok', [Tuple([z3.BitVecVal(fac.id, 64), BoxObj(Svc(w, fac.id, gen))])])])
            def model_drop(s, ex): pass
        return BoxObj(Fut())
    def model_drop(self, ex): pass


DEFAULT = dict(S=1, steps=4, env_per_step=2, max_conns=3, actions=('conn', 'finish'), pend_budget=2, err_budget=1, restart_pend_budget=1,
               timeout=None, checks=())


class WWorld:
    def __init__(self, ctx, ex, acc, cfg):
        self.c, self.ex, self.acc = ctx, ex, acc
        self.cfg = dict(DEFAULT); self.cfg.update(cfg)
        c = self.cfg; S = c['S']
        st = ctx.structs
        def byname(sname, **kw):
            order = st[sname]
            if set(order) != set(kw): raise core.Inconclusive('fields of %s changed: %s' % (sname, order))
            return [kw[k] for k in order]
        self.byname = byname
        ex.clock = z3.IntVal(5000)
        self.log = []; self.guards = []; self.gens = [0] * S
        self.budget = {'p': c['pend_budget'], 'e': c['err_budget'], 'w': c['restart_pend_budget']}
        self.script = None; self.answers_used = []
        self.connch = ChanObj(); self.stopch = ChanObj()
        self.atomic = AtomicObj(z3.BitVecVal(1, 64))
        ctr = Struct('Counter', byname('Counter', counter=RcPtr(RcBox(self.atomic)), limit=z3.BitVecVal(1 << 20, 64)))
        self.mw = MioWaker()
        wq = Struct('WakerQueue', [RcPtr(RcBox(Tuple([self.mw, MutexObj(DequeObj())])))])
        wc = Struct('WorkerCounter', byname('WorkerCounter', idx=z3.BitVecVal(0, 64), inner=RcPtr(RcBox(Tuple([wq, ctr])))))
        svcs = [Struct('WorkerService', byname('WorkerService', factory_idx=z3.BitVecVal(i, 64), status=Enum('WorkerServiceStatus', 'Unavailable'),
                                               service=BoxObj(Svc(self, i, 0)))) for i in range(S)]
        facs = [BoxObj(Factory(self, i)) for i in range(S)]
        if c['timeout'] is None:
            self.timeout = z3.Int('shutdown_timeout_ms'); ex.solver.add(self.timeout >= 0, self.timeout <= 5000)
        else: self.timeout = z3.IntVal(c['timeout'])
        self.connrx = RxObj(self.connch); self.accept_gone = False
        self.worker = Struct('ServerWorker', byname('ServerWorker', conn_rx=self.connrx, stop_rx=RxObj(self.stopch), counter=wc,
                             services=BoxObj(VecObj(svcs)), factories=BoxObj(VecObj(facs)), state=Enum('WorkerState', 'Unavailable'),
                             shutdown_timeout=self.timeout))
        self.cx = ContextObj(WakerObj(1))
        self.hist = []; ex.hist = self.hist
        self.next_sid = 100; self.tokens = []     # tokens of queued connections in arrival order
        self.stops = []                           # (graceful, OneshotTx, clock at send)
        self.done = False; self.result = None
        self.nconn = 0; self.step = 0
        self.polls = []                           # per poll: dict(result, live_before, clock, log_slice)
        self.finished = []
        self.last_poll_clock = None; self.stop_poll = None
        self.c07 = dict(gen_now=[0] * S, failed=set(), ncalled=0)

    # ---- answers: solver choice (exploration) or scripted (replay / differential)
    def next_answer(self, kind, sid):
        if self.script is not None:
            a = self.script.pop(0) if self.script else ('o' if kind == 'ready' else 'c')
        else:
            if kind == 'ready':
                opts = ['o'] + (['p'] if self.budget['p'] > 0 else []) + (['e'] if self.budget['e'] > 0 else [])
            else:
                opts = ['c'] + (['w'] if self.budget['w'] > 0 else [])
            a = self.ex.pick('ans', opts) if len(opts) > 1 else opts[0]
            if a in self.budget: self.budget[a] -= 1
        self.answers_used.append(a)
        return a

    def live(self): return len(self.guards)

    def total(self):
        return z3.simplify(self.atomic.value.v - 1)

    # ---- environment ops
    def enabled(self):
        c = self.cfg; A = c['actions']; ops = []
        if self.done: return ['end']
        if 'conn' in A and self.nconn < c['max_conns'] and not self.stops and not self.accept_gone:
            ops += ['conn:%d' % t for t in range(c['S'])]
        if 'finish' in A and self.guards: ops += ['finish:%d' % k for k in range(len(self.guards))]
        if 'stop' in A and len(self.stops) < c.get('max_stops', 1): ops += ['stop:1', 'stop:0']
        if 'tick' in A: ops.append('tick')
        if 'close' in A and not self.accept_gone: ops.append('close')
        ops.append('poll')
        return ops

    def apply(self, op):
        ex = self.ex
        if op.startswith('conn:'):
            tok = int(op[5:])
            conn = Struct('Conn', self.byname('Conn', io=Enum('MioStream', 'Tcp', [Struct('TcpStream', [z3.BitVecVal(self.next_sid, 64)])]), token=z3.BitVecVal(tok, 64)))
            self.connch.q.append(conn); self.tokens.append((self.next_sid, tok)); self.next_sid += 1; self.nconn += 1
            self.atomic.value.v = z3.simplify(self.atomic.value.v + 1)           # the accept thread's inc_counter
            self.hist.append(op)
        elif op.startswith('send:'):
            # replay only: the connection is handed over but not (yet) counted - an order only the accept thread can produce
            tok = int(op[5:])
            conn = Struct('Conn', self.byname('Conn', io=Enum('MioStream', 'Tcp', [Struct('TcpStream', [z3.BitVecVal(self.next_sid, 64)])]), token=z3.BitVecVal(tok, 64)))
            self.connch.q.append(conn); self.tokens.append((self.next_sid, tok)); self.next_sid += 1; self.nconn += 1; self.hist.append(op)
        elif op == 'inc':
            self.atomic.value.v = z3.simplify(self.atomic.value.v + 1); self.hist.append(op)
        elif op == 'close':
            # the accept thread has returned (it does so when it processes Stop): every WorkerHandleAccept, hence every sender of the
            # connection channel, is dropped
            self.connrx.senders_alive = False; self.accept_gone = True; self.hist.append(op)
        elif op.startswith('finish:'):
            sid, g = self.guards.pop(int(op[7:])); ex.drop(g); self.finished.append(sid); self.log.append('finished:%d' % sid); self.hist.append(op)
        elif op.startswith('stop:'):
            tx = OneshotTx(); g = op[5:] == '1'
            self.stopch.q.append(Struct('Stop', self.byname('Stop', graceful=z3.BoolVal(g), tx=tx)))
            self.stops.append((g, tx, ex.clock)); self.hist.append(op)
            if self.stop_poll is None: self.stop_poll = len(self.polls)
        elif op.startswith('tick'):
            if ':' in op: dt = z3.IntVal(int(op.split(':')[1])); self.hist.append(op)
            else:
                name = 'dt%d' % len(self.hist); dt = z3.Int(name); ex.solver.add(dt >= 0, dt <= 3000); self.hist.append('tick:' + name)
            ex.clock = z3.simplify(ex.clock + dt)

    def poll(self, answers=None):
        ex = self.ex
        self.script = list(answers) if answers is not None else None
        self.answers_used = []
        log0 = len(self.log); live0 = self.live(); q0 = len(self.connch.q)
        if self.done:
            self.log.append('P=after-ready'); self.hist.append('poll:'); return None
        r = ex.run(self.c.WPOLL, [Ref(LCell(Cell(self.worker))), Ref(LCell(Cell(self.cx)))])
        ready = r.variant == 'Ready'
        if ready: self.done = True
        tx = 'none'
        for g, t, _ in self.stops:
            if t.sent is not None: tx = 'true' if z3.is_true(z3.simplify(t.sent)) else 'false'
            elif getattr(t, 'dropped', False): tx = 'dropped'       # the request was dropped unanswered (e.g. replaced by a second Stop)
        unused = len(self.script) if self.script is not None else 0
        self.log.append('P=%s,total=%d,q=%d,tx=%s,unused=%d' % ('ready' if ready else 'pending', z3.simplify(self.total()).as_long(), len(self.connch.q), tx, unused))
        self.hist.append('poll:' + ','.join(self.answers_used))
        self.polls.append(dict(ready=ready, live_before=live0, q_before=q0, clock=ex.clock, events=self.log[log0:-1], tx=tx, prev_clock=self.last_poll_clock))
        self.last_poll_clock = ex.clock
        self.script = None
        return ready

    def roots(self):
        ghost = dict(nconn=self.nconn, c07=self.c07, budget=self.budget, gens=self.gens, done=self.done, next_sid=self.next_sid, tokens=self.tokens[-self.cfg['max_conns']:],
                     stops=[(g, t, c) for g, t, c in self.stops], last=self.last_poll_clock, fin=len(self.finished), sp=self.stop_poll is not None,
                     first=self.polls[self.stop_poll] if self.stop_poll is not None and len(self.polls) > self.stop_poll else None)
        return [self.worker, self.guards, self.ex.clock, ghost, self.timeout]


def make_body(ctx, cfg):
    def body(ex, acc):
        w = WWorld(ctx, ex, acc, cfg)
        c = w.cfg
        try:
            for step in range(c['steps']):
                boundary(ex, acc, step + 1, w.roots())
                nact = 0
                while True:
                    ops = w.enabled()
                    if nact >= c['env_per_step']: ops = [o for o in ops if o in ('poll', 'end')]
                    op = ex.pick('wenv', ops)
                    if op in ('poll', 'end'): break
                    w.apply(op); nact += 1; acc.transitions += 1
                if op == 'end': break
                w.poll(); acc.transitions += 1
                for chk in c['checks']: chk(w)
            boundary(ex, acc, c['steps'] + 1, w.roots())
        except Panic as p:
            acc.violated(ex, 'worker_never_panics', True, hist=w.hist, what='ServerWorker::poll panics: %s' % p)
        if len(acc.samples) < 4 and len(w.hist) >= 4: acc.samples.append({'history': list(w.hist), 'events': w.log[:14]})
    return body


# ---------------------------------------------------------------- assertions (on the services' event log)
def chk_c07(w):
    acc, ex = w.acc, w.ex
    S = w.cfg['S']
    p = w.polls[-1]
    # readiness answers count from the start of this poll (the worker checks readiness anew in every poll)
    st = w.c07
    last = {}; gen_now = st['gen_now']; failed = st['failed']; called = []
    for ev in p['events']:
        k = ev.split(':')
        if k[0] == 'ready':
            sid, gen, a = int(k[1]), int(k[2]), k[3]
            acc.violated(ex, 'C07/readiness_is_asked_of_the_current_instance', gen != gen_now[sid], hist=w.hist,
                         what='poll_ready on generation %d of service %d, current is %d' % (gen, sid, gen_now[sid]))
            acc.violated(ex, 'C07/failed_service_is_recreated_before_further_use', sid in failed, hist=w.hist,
                         what='service %d reported a readiness error earlier and is polled again without having been re-created' % sid)
            last[sid] = a
            if a == 'e': failed.add(sid)
        elif k[0] == 'create':
            sid, gen = int(k[1]), int(k[2])
            acc.violated(ex, 'C07/only_the_failed_service_is_recreated', sid not in failed, hist=w.hist,
                         what='factory %d ran although service %d did not fail (failed: %s)' % (sid, sid, sorted(failed)))
            acc.violated(ex, 'C07/failed_service_recreated_exactly_once', gen != gen_now[sid] + 1, hist=w.hist)
            gen_now[sid] = gen; failed.discard(sid); last.pop(sid, None)
            acc.wit['c07_service_restarted'] += 1
        elif k[0] == 'call':
            sid, gen, conn = int(k[1]), int(k[2]), int(k[3])
            notready = [i for i in range(S) if last.get(i) != 'o']
            acc.violated(ex, 'C07/call_only_right_after_every_service_reported_ready', bool(notready), hist=w.hist,
                         what='service %d called with connection %d while services %s had not answered Ready(Ok) since the previous call' % (sid, conn, notready))
            acc.violated(ex, 'C07/call_goes_to_the_current_instance', gen != gen_now[sid], hist=w.hist,
                         what='call on generation %d of service %d, current is %d' % (gen, sid, gen_now[sid]))
            acc.violated(ex, 'C07/failed_service_is_recreated_before_further_use', bool(failed), hist=w.hist,
                         what='a connection is served while service(s) %s reported a readiness error and were not re-created' % sorted(failed))
            called.append((sid, conn)); last = {}
            acc.wit['c07_calls'] += 1
    # C01 worker side: the k-th call carries the k-th queued connection, on services[token]
    for (sid, conn) in called:
        k = st['ncalled']; st['ncalled'] += 1
        want = w.tokens[k] if k < len(w.tokens) else None
        acc.violated(ex, 'C01/worker_calls_connections_in_order_once_on_their_listeners_service', want is None or want != (conn, sid), hist=w.hist,
                     what='call #%d was (connection %d on service %d), expected (connection, token) %s' % (k, conn, sid, want))
    called = [None] * st['ncalled']
    # nothing lost: every queued connection is either called, still queued, or (after a stop) released
    queued = len(w.connch.q)
    if not w.stops:
        acc.violated(ex, 'C07/no_queued_connection_is_lost', len(called) + queued != len(w.tokens), hist=w.hist,
                     what='%d arrived, %d called, %d still queued' % (len(w.tokens), len(called), queued))
        # progress: a poll in which every readiness answer was Ready(Ok) and no restart was pending serves the whole queue
        evs = p['events']
        allok = all(e.split(':')[3] == 'o' for e in evs if e.startswith('ready:')) and not any(e.startswith('restart-pending') for e in evs)
        if allok and not p['ready']:
            acc.violated(ex, 'C07/queued_connections_are_served_once_all_services_are_ready', queued != 0, hist=w.hist,
                         what='%d connections still queued after a poll in which every service answered ready' % queued)
            acc.wit['c07_all_ready_polls'] += 1
        if not w.done and p['ready']:
            acc.violated(ex, 'C07/worker_future_does_not_end_without_stop', True, hist=w.hist)


def chk_c06(w):
    """Worker side of shutdown: the Stop handler and the Shutdown arm of <ServerWorker as Future>::poll."""
    acc, ex = w.acc, w.ex
    if not w.stops or w.stop_poll is None or len(w.polls) <= w.stop_poll: return
    g, tx, _ = w.stops[0]
    p = w.polls[-1]; first = w.polls[w.stop_poll]
    k = len(w.polls) - 1 - w.stop_poll               # 0 = the poll that received Stop
    live_at_stop = first['live_before'] + first['q_before']
    elapsed = p['clock'] - first['clock']
    sent = tx.sent
    if p['ready']:
        acc.violated(ex, 'C06/worker_reports_outcome_when_it_completes', sent is None, hist=w.hist, what='worker future completed without answering the Stop request')
        if sent is None: return
        val = z3.is_true(z3.simplify(sent))
        if live_at_stop == 0:
            acc.violated(ex, 'C06/idle_worker_stops_at_once_with_true', not (k == 0 and val), hist=w.hist)
            acc.wit['c06_idle_stop'] += 1
        elif not g:
            acc.violated(ex, 'C06/forced_stop_completes_at_once_with_false', not (k == 0 and not val), hist=w.hist)
            acc.wit['c06_forced_stop'] += 1
        else:
            if val:
                acc.violated(ex, 'C06/graceful_true_only_with_no_connection_in_progress', w.live() != 0, hist=w.hist,
                             what='reported graceful success with %d connections in progress' % w.live())
                acc.wit['c06_graceful_true'] += 1
            else:
                acc.violated(ex, 'C06/graceful_gives_up_only_after_shutdown_timeout', elapsed < w.timeout, hist=w.hist,
                             what='graceful shutdown reported failure before shutdown_timeout elapsed')
                acc.wit['c06_graceful_timeout'] += 1
    else:
        acc.violated(ex, 'C06/idle_or_forced_stop_does_not_wait', live_at_stop == 0 or not g, hist=w.hist,
                     what='worker still pending after Stop(graceful=%s) with %d connections' % (g, live_at_stop))
        if g and live_at_stop > 0:
            acc.wit['c06_graceful_waiting'] += 1
            # the worker will only be polled again if its 1 s timer was polled (= registered the waker) after it was armed
            stv = w.worker.f[w.c.structs['ServerWorker'].index('state')].v
            if getattr(stv, 'variant', None) == 'Shutdown':
                timer = stv.f[0].v.f[w.c.structs['Shutdown'].index('timer')].v
                while hasattr(timer, 'content'): timer = timer.content.v
                acc.violated(ex, 'C06/shutdown_timer_is_polled_after_being_armed', not getattr(timer, 'polled', True), hist=w.hist,
                             what='the worker returned Pending during graceful shutdown without polling its re-armed timer: nothing will wake it up')
            if k > 0:
                # liveness on observables: the worker re-arms a 1 s timer at every tick, so a poll that comes >= 1 s after the
                # previous one finds the timer expired; it must then finish if it is idle or if shutdown_timeout has passed
                gap = p['clock'] - p['prev_clock'] >= 1000
                cond = z3.And(gap, z3.Or(z3.BoolVal(p['live_before'] == 0), elapsed >= w.timeout))
                acc.violated(ex, 'C06/graceful_shutdown_completes_once_idle_or_timed_out', cond, hist=w.hist,
                             what='worker still pending although a full 1 s tick went by and it is idle or past shutdown_timeout')
    # the Stop command is handled before anything else in a poll: from the poll that receives it on, nothing is served any more
    calls = [ev for ev in p['events'] if ev.startswith('call:')]
    acc.violated(ex, 'C06/no_service_call_after_stop_was_received', bool(calls), hist=w.hist, what='served after Stop: %s' % calls)
    # queued connections are released together with a counter guard: nothing stays queued, and the counter accounts for them
    if k >= 1 or (k == 0 and not p['ready'] and g):
        acc.violated(ex, 'C06/queued_connections_are_released_at_shutdown', len(w.connch.q) != 0, hist=w.hist)
        acc.violated(ex, 'C06/counter_matches_connections_in_progress_during_shutdown', w.total() != w.live(), hist=w.hist,
                     what='counter says %s, %d guards alive' % (w.total(), w.live()))


def chk_c06_exit(w):
    """A worker future that completes takes its connections in progress with it (its arbiter stops). Without a Stop request it may
    therefore complete only when nothing is in progress; with one, chk_c06 says when."""
    if not w.polls or not w.polls[-1]['ready']: return
    p = w.polls[-1]
    received_stop = w.stop_poll is not None and len(w.polls) - 1 >= w.stop_poll
    if received_stop: return
    w.acc.violated(w.ex, 'C06/worker_without_a_stop_request_does_not_exit_with_connections_in_progress', w.live() != 0, hist=w.hist,
                   what='the worker future completed without having received Stop while %d connections were in progress' % w.live())
    w.acc.wit['c06_exit_without_stop'] += 1


# ---------------------------------------------------------------- native side
def sym_run(ctx, cfg, tokens):
    c = dict(cfg); c.update(checks=())
    ex = ctx.mk(); acc = Acc(); w = WWorld(ctx, ex, acc, c)
    status = ''
    try:
        for t in tokens:
            if t.startswith('poll:'): w.poll([a for a in t[5:].split(',') if a])
            else: w.apply(t)
    except Panic: status = ' PANIC'
    return ' '.join(w.log) + status


def header(cfg, timeout): return 'S=%d timeout=%d' % (cfg['S'], timeout)


def random_schedule(ctx, cfg, rnd):
    from props.srvnative import RandomExec
    c = dict(cfg); c.update(checks=(), timeout=rnd.choice([0, 1000, 2000, 3000]))
    ex = RandomExec(ctx.fns, MODELS, ctx.structs, ctx.enums); ex.wakes = {}; ex.rnd = rnd
    acc = Acc(); w = WWorld(ctx, ex, acc, c)
    status = ''
    try:
        for step in range(c['steps']):
            for _ in range(rnd.randint(0, c['env_per_step'])):
                ops = [o for o in w.enabled() if o not in ('poll', 'end')]
                if not ops: break
                op = rnd.choice(ops)
                if op == 'tick': op = 'tick:%d' % rnd.choice([0, 300, 999, 1000, 1001, 2500])
                w.apply(op)
            w.poll()
    except Panic: status = ' PANIC'
    return list(w.hist), ' '.join(w.log) + status, c['timeout']


def differential(ctx, cfgs, seed, n):
    from props import srvnative
    rnd = random.Random(seed); cases = []
    for i in range(n):
        cfg = cfgs[i % len(cfgs)]
        hist, log, timeout = random_schedule(ctx, cfg, rnd)
        cases.append((header(cfg, timeout) + ' | ' + ' '.join(hist), log))
    nat = srvnative.run_schedules([c[0] for c in cases], mode='worker')
    bad = [(line, n_, log) for (line, log), n_ in zip(cases, nat) if n_.strip() != log.strip()]
    return len(cases), bad


def judge(trace, tokens, cfg, timeout):
    """Re-evaluate the worker-side obligations concretely on a native trace (same code as the symbolic checks, run on a
    concrete replay through engine S is not needed: the native log has the same format as WWorld.log)."""
    bad = set()
    evs = trace.split()
    if evs and evs[-1] == 'PANIC': bad.add('worker_never_panics'); evs = evs[:-1]
    S = cfg['S']
    last = {}; gen_now = [0] * S; failed = set(); called = []
    arrivals = []; sid = 100
    for t in tokens:
        if t.startswith('conn:'): arrivals.append((sid, int(t[5:]))); sid += 1
    for ev in evs:
        k = ev.split(':')
        if k[0] == 'ready':
            last[int(k[1])] = k[3]
            if k[3] == 'e': failed.add(int(k[1]))
        elif k[0] == 'create':
            s_, g_ = int(k[1]), int(k[2])
            if s_ not in failed: bad.add('C07/only_the_failed_service_is_recreated')
            if g_ != gen_now[s_] + 1: bad.add('C07/failed_service_recreated_exactly_once')
            gen_now[s_] = g_; failed.discard(s_); last.pop(s_, None)
        elif k[0] == 'call':
            s_, g_, c_ = int(k[1]), int(k[2]), int(k[3])
            if any(last.get(i) != 'o' for i in range(S)): bad.add('C07/call_only_right_after_every_service_reported_ready')
            if g_ != gen_now[s_]: bad.add('C07/call_goes_to_the_current_instance')
            called.append((s_, c_)); last = {}
    for i, (s_, c_) in enumerate(called):
        if i >= len(arrivals) or arrivals[i] != (c_, s_): bad.add('C01/worker_calls_connections_in_order_once_on_their_listeners_service')
    return bad, evs


# ---------------------------------------------------------------- runner
WORKER_MODELS = ['dyn Service / dyn InternalServiceFactory = scripted objects (every readiness answer and restart-future answer is a solver choice within the stated budgets)',
                 'tokio unbounded mpsc / oneshot models; actix_rt::time::{Instant,sleep,Sleep} on the virtual clock (integers, ms)',
                 'the accept thread\'s inc_counter is performed by the environment when it queues a connection', 'tracing macros = no-op']


def run_worker_property(rep, pid, runs, tier, seed, keep=()):
    from props import srvnative
    rep.engines.add('mirsym (engine S) + z3 %s' % z3.get_version_string())
    rep.models |= set(WORKER_MODELS)
    rep.assumptions += ['scripted services stand for arbitrary service implementations: only their poll_ready/call/create answers matter to the worker',
                        'engine S is validated on every run against the natively compiled mount crate on random concrete schedules']
    ctx = SrvCtx()
    srvnative.build()
    n, bad = differential(ctx, [dict(r[1], actions=tuple(set(r[1]['actions']) | {'tick'})) for r in runs], seed, 60 if tier == 'quick' else 200)
    rep.counters['traces_validated_against_impl'] += n
    if bad:
        rep.inconc('differential validation mismatch (worker) between engine S and the native build: %r' % (bad[0],)); return
    for label, cfg in runs:
        t0 = time.time()
        acc = explore_levels(ctx.mk, make_body(ctx, cfg), cfg['steps'] + 1, seed=seed)
        rep.bounds['worker:' + label] = {k: v for k, v in cfg.items() if k != 'checks'}
        rep.bounds['worker:' + label].update(paths=acc.paths, wall_s=round(time.time() - t0, 1), distinct_states_per_level=acc.level_counts)
        kp = lambda name: any(name.startswith(p) for p in keep) or name == 'worker_never_panics'
        acc.obl = type(acc.obl)({k: v for k, v in acc.obl.items() if kp(k)})
        acc.fail = type(acc.fail)({k: v for k, v in acc.fail.items() if kp(k)})
        acc.to_report(rep)
        for key, v in sorted(acc.viol.items()):
            if not kp(v['obligation']): continue
            report_violation(rep, pid, ctx, cfg, v)


def report_violation(rep, pid, ctx, cfg, v):
    from props import srvnative
    model = v['model']
    tokens = []
    for h in v['hist']:
        if h.startswith('tick:dt'): tokens.append('tick:%d' % int(model.get(h[5:], 0)))
        else: tokens.append(h)
    timeout = int(model.get('shutdown_timeout_ms', cfg.get('timeout') or 0))
    line = header(cfg, timeout) + ' | ' + ' '.join(tokens)
    trace = srvnative.run_schedules([line], mode='worker')[0]
    # the native log has the same format as the symbolic one: judge it by re-running the same check functions on a concrete replay
    badn = judge_native(ctx, cfg, tokens, timeout, trace)
    reproduced = v['obligation'] in badn
    shape = ' '.join(t.split(':')[0] if t.startswith('tick') else t for t in v['hist'])
    fkey = '%s: S=%d hist=[%s]' % (v['obligation'], cfg['S'], shape)
    if v['obligation'] == 'C06/worker_without_a_stop_request_does_not_exit_with_connections_in_progress' and 'close' in tokens:
        # one call site, one failure mode (worker.rs, Available arm: `None => return Poll::Ready(())` when the connection channel is
        # closed): keyed by that role, not by the particular history the exploration happens to find first
        fkey = '%s: the connection channel is closed (accept thread gone) before the worker has received Stop' % v['obligation']
    path = core.write_replay(pid, fkey, {'side': 'worker', 'cfg': {k: x for k, x in cfg.items() if k != 'checks'}, 'timeout': timeout, 'tokens': tokens,
                                         'obligation': v['obligation'], 'native_trace': trace, 'native_violations': sorted(badn)})
    rep.violation(fkey, '%s -- %s; history=%s' % (v['obligation'], v['what'], tokens), replay=path, reproduced=reproduced)


class NativeEcho:
    """A WWorld-shaped view over a native trace so that the same chk_* functions judge the native run."""


def judge_native(ctx, cfg, tokens, timeout, trace):
    """Concrete schedule: run it through engine S too (script mode) and require the native log to be identical; then the
    obligations violated on that concrete run are exactly those violated natively."""
    c = dict(cfg); c.update(timeout=timeout)
    ex = ctx.mk(); acc = Acc(); w = WWorld(ctx, ex, acc, c)
    status = ''
    checks = [chk_c07, chk_c06, chk_c06_exit]
    try:
        for t in tokens:
            if t.startswith('poll:'):
                w.poll([a for a in t[5:].split(',') if a])
                for chk in checks: chk(w)
            else: w.apply(t)
    except Panic:
        status = ' PANIC'; acc.fail['worker_never_panics'] += 1
    symlog = ' '.join(w.log) + status
    if symlog.strip() != trace.strip():
        return set()           # encoding and native run disagree on this schedule: not reproduced
    return set(k for k, n in acc.fail.items() if n)


def replay_file(path):
    from props import srvnative
    d = json.load(open(path)); ctx = SrvCtx()
    line = header(d['cfg'], d['timeout']) + ' | ' + ' '.join(d['tokens'])
    trace = srvnative.run_schedules([line], mode='worker')[0]
    bad = judge_native(ctx, d['cfg'], d['tokens'], d['timeout'], trace)
    print('schedule:', line); print('native trace:', trace); print('violated obligations:', sorted(bad))
    return 1 if d['obligation'] in bad else 0


def run_c01_worker_side(rep, tier, seed):
    q = tier == 'quick'
    runs = [('S2', dict(S=2, steps=3 if q else 4, env_per_step=2, max_conns=2 if q else 3, actions=('conn', 'finish'), checks=(chk_c07,))),
            ('S2-stop', dict(S=2, steps=3 if q else 4, env_per_step=3, max_conns=2 if q else 3, pend_budget=1, err_budget=0, restart_pend_budget=0,
                             actions=('conn', 'finish', 'stop'), checks=(chk_c07, chk_c06)))]
    rep.need_witness('c07_calls', 'c06_graceful_waiting')
    run_worker_property(rep, 'C01', runs, tier, seed, keep=('C01/', 'C06/no_service_call_after_stop', 'C06/queued_connections_are_released', 'C06/counter_matches'))
