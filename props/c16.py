"""C16 - local-channel: FIFO, exactly once, clean closure, no lost wake-up.   Engine S on the real MIR of
local-channel/src/mpsc.rs and local-waker/src/lib.rs; every operation sequence up to the depth bound, symbolic
payloads, symbolic choice of the acting sender; reference queue model stepped alongside."""
import os, random, json
import z3
from vlib import core, mir, native
from mirsym import parse_mir, Exec, Ref, LCell, Cell, Enum, Abort, Panic, Unknown
import mirsym, models
from models import MODELS, WakerObj, ContextObj, parse_layouts
from explore import explore, explore_levels, boundary, Acc

MAX_SENDERS = 3
OPS = ['send', 'clone', 'dropS', 'close', 'poll', 'rsender', 'dropR']


# ------------------------------------------------------------------ reference model (observables only)
def ref_new():
    return {'q': [], 'closed': False, 'n': 1, 'parked': None, 'rx': True}


def ref_step(st, op, res, wakes, eq):
    """Advance the reference model over one operation and return [(obligation, violated?)], where violated? is a
    bool or a solver condition.  res: ('ok',) ('err',) ('some', v) ('none',) ('pending', waker_id) ('-',)"""
    out = []
    parked = st['parked']
    woke = parked is not None and wakes.get(parked, 0) >= 1
    if op[0] == 'send':
        exp_ok = st['rx'] and not st['closed']
        out.append(('send_fails_iff_receiver_gone_or_closed', (res[0] == 'ok') != exp_ok))
        if res[0] == 'ok':
            st['q'].append(op[2])
            if parked is not None and st['rx']:
                out.append(('parked_receiver_woken_by_send', not woke)); st['parked'] = None
    elif op[0] in ('clone', 'rsender'):
        st['n'] += 1
    elif op[0] == 'dropS':
        st['n'] -= 1
        if st['n'] == 0 and parked is not None and st['rx']:
            out.append(('parked_receiver_woken_by_last_sender_drop', not woke)); st['parked'] = None
    elif op[0] == 'close':
        st['closed'] = True
        if parked is not None and st['rx']:
            out.append(('parked_receiver_woken_by_close', not woke)); st['parked'] = None
    elif op[0] == 'dropR':
        st['rx'] = False; st['q'] = []; st['parked'] = None
    elif op[0] == 'poll':
        if st['q']:
            head = st['q'].pop(0)
            if res[0] != 'some': out.append(('poll_yields_messages_in_send_order_exactly_once', True))
            else: out.append(('poll_yields_messages_in_send_order_exactly_once', eq(res[1], head)))
        elif st['closed'] or st['n'] == 0:
            out.append(('drained_closed_or_senderless_channel_yields_none', res[0] != 'none'))
        else:
            out.append(('empty_open_channel_is_pending', res[0] != 'pending'))
            if res[0] == 'pending': st['parked'] = res[1]
    return out


# ------------------------------------------------------------------ engine S
class Ctx:
    pass


def load():
    c = Ctx()
    txt = mir.repo_crate('local-channel') + '\n' + mir.repo_crate('local-waker')
    c.fns = parse_mir(txt)
    c.structs, c.enums = parse_layouts([core.REPO + '/local-channel/src/mpsc.rs', core.REPO + '/local-waker/src/lib.rs'])
    def F(suffix, contains=''):
        cand = [f for n, f in c.fns.items() if n.endswith(suffix) and contains in n]
        if len(cand) != 1: raise core.Inconclusive('cannot locate %s (%s) in the MIR dump: %s' % (suffix, contains, [x.name for x in cand]))
        return cand[0]
    c.F = F
    c.CHANNEL = F('mpsc::channel')
    c.SEND = F('>::send'); c.CLOSE = F('>::close'); c.POLL = F('>::poll_next'); c.RSENDER = F('>::sender')
    # Clone for Sender: impl located through its source line
    c.CLONE = c.SDROP = c.RDROP = None
    ex = Exec(c.fns, MODELS, c.structs, c.enums)
    c.CLONE = ex.resolve(('Sender', 'Clone', 'clone')); c.SDROP = ex.resolve(('Sender', 'Drop', 'drop')); c.RDROP = ex.resolve(('Receiver', 'Drop', 'drop'))
    if not (c.CLONE and c.SDROP and c.RDROP): raise core.Inconclusive('Sender::clone / Drop impls not found in the MIR dump')
    return c


def mk_exec(c):
    ex = Exec(c.fns, MODELS, c.structs, c.enums); ex.wakes = {}
    return ex


class Chan:
    """The real channel objects of one path plus helpers to apply one operation through the real MIR."""
    def __init__(self, c, ex):
        self.c, self.ex = c, ex
        pair = ex.run(c.CHANNEL, [])
        self.senders = [pair.f[0].v]; self.rx = pair.f[1].v; self.npoll = 0

    def apply(self, op):
        c, ex = self.c, self.ex
        w0 = dict(ex.wakes)
        kind = op[0]
        if kind == 'send':
            r = ex.run(c.SEND, [Ref(LCell(Cell(self.senders[op[1]]))), op[2]])
            res = ('ok',) if r.variant == 'Ok' else ('err',)
        elif kind == 'clone':
            self.senders.append(ex.run(c.CLONE, [Ref(LCell(Cell(self.senders[op[1]])))])); res = ('-',)
        elif kind == 'rsender':
            self.senders.append(ex.run(c.RSENDER, [Ref(LCell(Cell(self.rx)))])); res = ('-',)
        elif kind == 'dropS':
            ex.drop(self.senders.pop(op[1])); res = ('-',)
        elif kind == 'close':
            ex.run(c.CLOSE, [Ref(LCell(Cell(self.senders[op[1]])))]); res = ('-',)
        elif kind == 'dropR':
            ex.drop(self.rx); self.rx = None; res = ('-',)
        elif kind == 'poll':
            wid = self.npoll % 3; self.npoll += 1          # three waker identities in rotation (a one-slot LocalWaker cannot confuse more)
            cx = ContextObj(WakerObj(wid))
            r = ex.run(c.POLL, [Ref(LCell(Cell(self.rx))), Ref(LCell(Cell(cx)))])
            if r.variant == 'Pending': res = ('pending', wid)
            elif r.f[0].v.variant == 'None': res = ('none',)
            else: res = ('some', r.f[0].v.f[0].v)
        wakes = {k: v - w0.get(k, 0) for k, v in ex.wakes.items() if v != w0.get(k, 0)}
        return res, wakes


def op_str(op):
    if op[0] == 'send': return 'send:%d:%s' % (op[1], op[2])
    if op[0] in ('clone', 'dropS', 'close'): return '%s:%d' % (op[0], op[1])
    return op[0]


def make_body(c, depth):
    def body(ex, acc):
        ch = Chan(c, ex); st = ref_new(); hist = []; ex.hist = hist
        for step in range(depth):
            boundary(ex, acc, step + 1, [ch.senders, ch.rx, st, ch.npoll % 3])
            ops = []
            if ch.senders: ops += ['send', 'dropS', 'close']
            if ch.senders and len(ch.senders) < MAX_SENDERS: ops.append('clone')
            if ch.rx is not None:
                ops.append('poll')
                if len(ch.senders) < MAX_SENDERS: ops.append('rsender')
                ops.append('dropR')
            ops.append('stop')
            kind = ex.pick('op', ops)
            if kind == 'stop': break
            if kind in ('send', 'dropS', 'close', 'clone'):
                idx = ex.pick('sender', list(range(len(ch.senders)))) if len(ch.senders) > 1 else 0
            if kind == 'send':
                v = z3.BitVec('v%d' % step, 8); op = ('send', idx, v)
            elif kind in ('dropS', 'close', 'clone'): op = (kind, idx)
            else: op = (kind,)
            hist.append(op_str(op))
            try:
                res, wakes = ch.apply(op)
            except Panic as p:
                acc.violated(ex, 'no_panic', True, what='channel operation panics: %s' % p, hist=hist); return
            acc.transitions += 1
            for name, cond in ref_step(st, op, res, wakes, lambda a, b: a != b):
                if acc.violated(ex, name, cond, hist=hist): return
            if op[0] == 'poll' and res[0] == 'pending': acc.wit['receiver_parked'] += 1
            if op[0] == 'poll' and res[0] == 'none': acc.wit['stream_ended'] += 1
            if op[0] == 'send' and res[0] == 'err': acc.wit['send_refused'] += 1
        boundary(ex, acc, depth + 1, [ch.senders, ch.rx, st, ch.npoll % 3])
        acc.states.add((len(st['q']), st['closed'], st['n'], st['parked'] is not None, st['rx'], len(hist)))
        if len(acc.samples) < 3 and len(hist) == depth: acc.samples.append(' '.join(hist))
    return body


# ------------------------------------------------------------------ native side (real crate, public API)
def parse_native(line):
    out = []
    for item in line.split():
        r, w = item.split('|')
        wakes = {int(a.split('=')[0]): int(a.split('=')[1]) for a in w.split(',') if a}
        out.append((r, wakes))
    return out


def native_check(binary, hist):
    """Run a concrete history natively and judge it with the same reference model. Returns list of violated obligations."""
    line = native.run_lines(binary, [' '.join(hist)])[0]
    tr = parse_native(line)
    st = ref_new(); bad = []; npoll = 0
    for h, (r, wakes) in zip(hist, tr):
        p = h.split(':'); kind = p[0]
        if r == 'skip': raise core.Inconclusive('replay history not applicable natively: %s' % hist)
        if kind == 'send': op = ('send', int(p[1]), int(p[2])); res = (r,)
        elif kind in ('clone', 'dropS', 'close'): op = (kind, int(p[1])); res = ('-',)
        elif kind == 'poll':
            op = ('poll',)
            if r == 'pending': res = ('pending', npoll % 3)
            elif r == 'none': res = ('none',)
            else: res = ('some', int(r[4:]))
            npoll += 1
        else: op = (kind,); res = ('-',)
        for name, cond in ref_step(st, op, res, wakes, lambda a, b: a != b):
            if cond: bad.append(name)
    return bad, line


def concretize(hist, model):
    out = []
    for k, h in enumerate(hist):
        p = h.split(':')
        if p[0] == 'send':
            v = model.get(p[2], (k * 7 + 1) % 256) if isinstance(model, dict) else 0
            out.append('send:%s:%d' % (p[1], int(v)))
        else: out.append(h)
    return out


def sym_trace(c, hist):
    """Concrete history through mirsym (differential validation)."""
    ex = mk_exec(c); ch = Chan(c, ex); out = []
    for h in hist:
        p = h.split(':'); kind = p[0]
        if kind in ('send', 'clone', 'dropS', 'close') and int(p[1]) >= len(ch.senders): out.append('skip|'); continue
        if kind in ('poll', 'rsender') and ch.rx is None: out.append('skip|'); continue
        if kind == 'send': op = ('send', int(p[1]), z3.BitVecVal(int(p[2]), 8))
        elif kind in ('clone', 'dropS', 'close'): op = (kind, int(p[1]))
        else: op = (kind,)
        res, wakes = ch.apply(op)
        if res[0] == 'some': r = 'some%d' % z3.simplify(res[1]).as_long()
        else: r = res[0]
        out.append('%s|%s' % (r, ','.join('%d=%d' % kv for kv in sorted(wakes.items()))))
    return ' '.join(out)


def differential(c, binary, seed, n=250):
    rnd = random.Random(seed)
    seqs = []
    for _ in range(n):
        s = []
        for _ in range(rnd.randint(1, 12)):
            k = rnd.choice(OPS + ['send', 'poll', 'poll'])
            if k == 'send': s.append('send:%d:%d' % (rnd.randint(0, 2), rnd.randint(0, 255)))
            elif k in ('clone', 'dropS', 'close'): s.append('%s:%d' % (k, rnd.randint(0, 2)))
            else: s.append(k)
        seqs.append(s)
    nat = native.run_lines(binary, [' '.join(s) for s in seqs])
    bad = []
    for s, nline in zip(seqs, nat):
        m = sym_trace(c, s)
        if m.split() != nline.split(): bad.append((s, nline, m))
    return len(seqs), bad


# ------------------------------------------------------------------ entry points
def run(rep, tier, seed):
    depth = 14 if tier == 'quick' else 24
    depth = int(os.environ.get('VERIF_C16_DEPTH', depth))
    rep.engines.add('mirsym (engine S) + z3 %s' % z3.get_version_string())
    rep.bounds.update({'operation_sequence_length': depth, 'max_senders': MAX_SENDERS, 'payload': 'symbolic u8 per send',
                       'acting_sender': 'symbolic', 'waker': 'three identities in rotation'})
    rep.models |= {'Rc (strong count)', 'RefCell (borrow flag; double borrow = panic)', 'VecDeque (FIFO list)', 'Cell<Option<Waker>>',
                   'Waker (identity + wake counter)'}
    rep.assumptions += ['callee models of std items (Rc, RefCell, VecDeque, Cell, Waker) implement their documented contract',
                        'mirsym executes textual MIR faithfully (validated on every run against the natively compiled crate)']
    rep.need_witness('receiver_parked', 'stream_ended', 'send_refused')
    c = load()
    binary = native.build('chan')
    n, bad = differential(c, binary, seed)
    rep.counters['traces_validated_against_impl'] += n
    if bad:
        rep.inconc('differential validation mismatch between mirsym and the native build: %r' % (bad[0],)); return
    acc = explore_levels(lambda: mk_exec(c), make_body(c, depth), depth + 1, seed=seed, wall_cap=3000 if tier == 'thorough' else 900)
    rep.bounds['distinct_states_per_level'] = acc.level_counts
    acc.to_report(rep)
    for key, v in sorted(acc.viol.items()):
        hist = concretize(v['hist'], v['model'])
        badn, line = native_check(binary, hist)
        reproduced = v['obligation'] in badn or (v['obligation'] == 'no_panic')
        fkey = 'C16/%s: ops=[%s]' % (v['obligation'], ' '.join(h.split(':')[0] for h in v['hist']))
        path = core.write_replay('C16', fkey, {'history': hist, 'obligation': v['obligation'], 'native_trace': line, 'native_violations': badn})
        rep.violation(fkey, '%s violated by history %s (native trace: %s)' % (v['obligation'], hist, line), replay=path, reproduced=reproduced)


def replay(path):
    d = json.load(open(path))
    binary = native.build('chan')
    bad, line = native_check(binary, d['history'])
    print('history:', ' '.join(d['history'])); print('native trace:', line); print('violated obligations:', bad)
    return 1 if d['obligation'] in bad else 0
