"""C08 - a faulted worker is detected, bypassed and replaced; the accept thread never panics or spins.  Engine S, real
accept loop; worker death = receiver dropped, its outstanding connection guards are dropped later one by one (late
availability notifications), replacement handle arrives as WakerInterest::Worker."""
from props.srvchecks import *


def run(rep, tier, seed):
    rep.need_witness('c08_fault_detected', 'c08_replacement_in_rotation', 'c08_states_after_fault')
    acts = ('connect', 'finish', 'die', 'replace')
    ck = (chk_c08, chk_c01, chk_c03)
    q = tier == 'quick'
    runs = [('W1', dict(W=1, L=1, turns=8 if q else 10, env_per_turn=2, max_conns=4 if q else 5, actions=acts, track_c01=True, checks=ck)),
            ('W2', dict(W=2, L=1, turns=5 if q else 6, env_per_turn=2, max_conns=3 if q else 4, actions=acts, track_c01=True, pickup=True, checks=ck))]
    if not q:
        # (an exhaustive W=3 two-fault run did not finish within an hour: it is not part of this tier)
        runs += [('W3', dict(W=3, L=1, turns=5, env_per_turn=2, max_conns=4, actions=acts, track_c01=True, checks=ck)),
                 ('W2-two-faults', dict(W=2, L=1, turns=5, env_per_turn=3, max_conns=3, max_dead=2, max_replacements=2, actions=acts, track_c01=True, checks=ck))]
    else:
        # two simultaneous faults: regression schedule family (quick), exhaustive in thorough
        runs += [('W2-two-faults-limit1', dict(W=2, L=1, limit=1, turns=5, env_per_turn=3, max_conns=3, max_dead=2, max_replacements=0, actions=('connect', 'finish', 'die'), track_c01=True, checks=ck))]
    ctx = run_accept_property(rep, 'C08', runs, tier, seed, also=('C01/', 'C03/'))
    if ctx is not None:
        # server side: the real handle_cmd(WorkerFaulted) coroutine (ServerWorker::start modelled)
        from props import srvrfault
        rep.need_witness('c08_srv_replacement_started')
        srvrfault.run_fault_side(rep, ctx, tier, seed)


def replay(path):
    import json
    d = json.load(open(path))
    if d.get('side') == 'server': print(json.dumps(d, indent=1)); print('(engine-S path of handle_cmd(WorkerFaulted); ServerWorker::start has no native counterpart in the mount crate)'); return 1
    return replay_file(path)
