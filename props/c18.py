"""C18 - TLS acceptors bound handshake time and concurrency (engine S, partial: see tlsworld.py and DESIGN.md)."""
from props import tlsworld


def run(rep, tier, seed):
    rep.need_witness('c18_not_ready', 'c18_timed_out', 'c18_stream', 'c18_woken_on_release')
    tlsworld.run_c18(rep, tier, seed)


def replay(path): return tlsworld.replay_file(path)
