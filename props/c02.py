"""C02 - per-worker concurrency never exceeds max_concurrent_connections.  Engine S, real accept loop; `limit` is a
solver variable (any value >= 1)."""
from props.srvchecks import *


def kernel_counter(rep, ctx):
    """Counter::{inc,dec} for every usize value of the counter and the limit (loop-free: exhaustive for the type):
    inc reports 'full' exactly when in-progress reaches limit; dec reports the crossing exactly when in-progress leaves limit."""
    from mirsym import Struct, Ref, LCell, Cell
    from models import RcPtr, RcBox, AtomicObj
    from explore import Acc
    acc = Acc()
    for which in ('inc', 'dec'):
        ex = ctx.mk()
        limit = z3.BitVec('limit', 64); cnt = z3.BitVec('counter', 64)
        ex.solver.add(limit >= 1, z3.UGE(cnt, 1), z3.ULT(cnt, (1 << 64) - 2), z3.ULT(limit, (1 << 64) - 2))
        ctr = Struct('Counter', [None, None])
        order = ctx.structs['Counter']
        at = AtomicObj(cnt)
        ctr.f[order.index('counter')].v = RcPtr(RcBox(at)); ctr.f[order.index('limit')].v = limit
        inprog = cnt - 1                                   # counter is biased by one (Counter::new -> 1; total() = load - 1)
        if which == 'inc':
            r = ex.run(ctx.INC, [Ref(LCell(Cell(ctr)))])   # returns false when the worker became full
            acc.violated(ex, 'C02/kernel_inc_reports_full_iff_inprogress_reaches_limit', (r == False) != (inprog + 1 == limit), hist=['Counter::inc'])
        else:
            ex.solver.add(z3.UGE(cnt, 2))
            r = ex.run(ctx.DEC, [Ref(LCell(Cell(ctr)))])
            acc.violated(ex, 'C02/kernel_dec_reports_crossing_iff_inprogress_leaves_limit', (r == True) != (inprog == limit), hist=['Counter::dec'])
        acc.paths += 1; acc.queries += ex.nq; acc.solver_s += ex.tsolve; acc.fn_used |= ex.fn_used
    acc.to_report(rep)
    for k, v in acc.viol.items():
        fkey = '%s: counter=%s limit=%s' % (k, v['model'].get('counter'), v['model'].get('limit'))
        path = core.write_replay('C02', fkey, {'kernel': k, 'model': v['model']})
        # a kernel counterexample is reported only through the schedule exploration (which replays natively); here it is evidence
        rep.extra.setdefault('kernel_counterexamples', []).append(fkey)


def run(rep, tier, seed):
    rep.need_witness('c02_checked_with_load')
    acts = ('connect', 'finish')
    q = tier == 'quick'
    runs = [('W1', dict(W=1, L=1, turns=14, env_per_turn=3, max_conns=7 if q else 9, actions=acts, checks=(chk_c02,))),
            ('W1-race', dict(W=1, L=1, turns=12, env_per_turn=2, max_conns=5 if q else 7, actions=acts, race=True, pickup=True, checks=(chk_c02,))),
            ('W2', dict(W=2, L=1, turns=12, env_per_turn=2, max_conns=5 if q else 6, actions=acts, pickup=True, checks=(chk_c02,)))]
    if not q:
        runs += [('W3', dict(W=3, L=1, turns=10, env_per_turn=3, max_conns=6, actions=acts, checks=(chk_c02,)))]
    ctx = run_accept_property(rep, 'C02', runs, tier, seed)
    if ctx is not None: kernel_counter(rep, ctx)


def replay(path): return replay_file(path)
