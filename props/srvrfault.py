"""Server side of C08 for engine S: `ServerInner::handle_cmd(WorkerFaulted(idx))` (actix-server/src/server.rs) - the real coroutine,
reached through the real `ServerHandle::worker_faulted` and the real run loop of props/srvrworld.py.  `ServerWorker::start` (threads,
arbiters, service factories) is replaced by a model that builds the two handles with the real `handle_pair` over fresh channels."""
import z3
from vlib import core
from mirsym import Ref, LCell, Cell, Enum, Struct, Tuple, Opaque, Panic, UNIT
from models import MODELS, ChanObj, TxObj, RcPtr, RcBox, AtomicObj, target
from explore import explore
from props import srvrworld
from props.srvrworld import ServerWorld, SrvrCtx, _is_true


def m_worker_start(ex, a, t):
    """ServerWorker::start(idx, factories, waker_queue, config) -> io::Result<(WorkerHandleAccept, WorkerHandleServer)>"""
    w = ex.srvr; idx = z3.simplify(a[0]).as_long()
    if getattr(w, 'start_fails', False):
        w.log.append(('worker_start_failed', idx)); return Enum('Result', 'Err', [Opaque('io error')])
    connch, stopch = ChanObj(), ChanObj()
    S = w.c.structs
    ctr = Struct('Counter', [None] * len(S['Counter']))
    ctr.f = [Cell(RcPtr(RcBox(AtomicObj(z3.BitVecVal(1, 64)))) if n == 'counter' else z3.BitVecVal(4, 64)) for n in S['Counter']]
    pair = ex.run(w.c.HANDLE_PAIR, [a[0], TxObj(connch), TxObj(stopch), ctr])
    w.started.append((idx, connch, stopch))
    w.log.append(('worker_started', idx))
    return Enum('Result', 'Ok', [pair])


class FaultCtx(SrvrCtx):
    def __init__(self, sctx):
        SrvrCtx.__init__(self, sctx)
        self.H_FAULTED = sctx.M('ServerHandle', 'worker_faulted')
        self.HANDLE_PAIR = sctx.fns.get('handle_pair') or sctx.F('::handle_pair')
        self.models = [(r'ServerWorker::start$', m_worker_start)] + self.models


def make_body(ctx, steps, W):
    def body(ex, acc):
        w = ServerWorld(ctx, ex, acc, W, system_stop=False, signals=False, has_system=True)
        w.system_stop_cfg = False; w.stop_cmd = None; w.cmd_closed = lambda: False; w.started = []
        w.hist.append('cfg=plain W=%d' % W)
        nfault = 0; nstop = 0; faulted = set()
        for step in range(steps):
            ops = ['poll']
            # the accept thread reports a dead worker once (C08, accept side): one fault per index here
            if nfault < 2: ops += ['fault:%d' % i for i in range(W) if i not in faulted]
            if nstop < 1: ops += ['stop_g']
            w.worker_take()
            for i in range(W):
                if any(not s['answered'] for s in w.worker_stops[i]): ops += ['w%d:true' % i]
            op = ex.pick('op', ops)
            if op == 'poll':
                if w.server_done is not None: continue
                n0 = len(w.started); wq0 = len(w.mq.value.v.items); wake0 = w.mw.pending
                try: new = w.poll_server()
                except Panic as p:
                    acc.violated(ex, 'C08/server_future_never_panics_on_a_worker_fault', True, hist=w.hist, what=str(p)); return
                faults = [e for e in new if e[0] == 'cmd' and e[1] == 'WorkerFaulted']
                started = w.started[n0:]
                acc.violated(ex, 'C08/every_reported_fault_starts_one_replacement_with_the_same_index', [s[0] for s in started] != [f[3] for f in faults],
                             hist=w.hist, what='faults reported for %s, workers started for %s' % ([f[3] for f in faults], [s[0] for s in started]))
                if started:
                    acc.wit['c08_srv_replacement_started'] += 1
                    # the accept thread is handed exactly the new accept handles, in order, and is woken
                    items = w.mq.value.v.items[wq0:]
                    handed = [z3.simplify(it.f[0].v.f[w.c.structs['WorkerHandleAccept'].index('idx')].v).as_long() for it in items if isinstance(it, Enum) and it.variant == 'Worker']
                    acc.violated(ex, 'C08/replacement_handle_is_handed_to_the_accept_thread', handed != [s[0] for s in started] or w.mw.pending <= wake0, hist=w.hist,
                                 what='Worker interests queued for %s, replacements %s, mio wake-ups %d -> %d' % (handed, [s[0] for s in started], wake0, w.mw.pending))
                    # the server's own handle list: one handle per index, the faulted index now owns the NEW stop channel
                    hs = w.inner.f[w.c.structs['ServerInner'].index('worker_handles')].v.items
                    idxs = [z3.simplify(h.v.f[w.c.structs['WorkerHandleServer'].index('idx')].v).as_long() for h in hs]
                    acc.violated(ex, 'C08/server_keeps_one_handle_per_worker_index', sorted(idxs) != list(range(W)), hist=w.hist, what='handle indices %s' % idxs)
                    for idx, connch, stopch in started:
                        for h in hs:
                            if z3.simplify(h.v.f[w.c.structs['WorkerHandleServer'].index('idx')].v).as_long() == idx:
                                tx = h.v.f[w.c.structs['WorkerHandleServer'].index('stop_tx')].v
                                acc.violated(ex, 'C08/a_later_stop_reaches_the_replacement_not_the_dead_worker', tx.ch is not stopch, hist=w.hist)
                        w.wchan[idx] = stopch; w.worker_stops[idx] = []
                srvrworld.check_after_poll(w, [e for e in new])
            elif op.startswith('fault:'):
                ex.run(ctx.H_FAULTED, [Ref(LCell(Cell(w.handle))), z3.BitVecVal(int(op[6:]), 64)]); w.hist.append(op); nfault += 1; faulted.add(int(op[6:]))
            elif op == 'stop_g': w.user_stop(True); nstop += 1
            elif op.startswith('w'): i, how = op[1:].split(':'); w.worker_answer(int(i), how)
        acc.transitions += len(w.hist)
    return body


def describe_fault(cmd):
    return ('WorkerFaulted', None, z3.simplify(cmd.f[0].v).as_long(), None)


def run_fault_side(rep, sctx, tier, seed):
    rep.models |= {'ServerWorker::start = builds the two handles with the real handle_pair over fresh channels (threads, arbiters and service factories are outside)'}
    ctx = FaultCtx(sctx)
    orig = srvrworld.describe_cmd
    def describe(c, cmd): return describe_fault(cmd) if cmd.variant == 'WorkerFaulted' else orig(c, cmd)
    srvrworld.describe_cmd = describe
    try:
        for W, steps in (((2, 5),) if tier == 'quick' else ((2, 6), (3, 5))):
            acc = explore(ctx.mk, make_body(ctx, steps, W), seed=seed, seed_paths=200)
            rep.bounds['server-side faults W=%d' % W] = {'operations': steps, 'paths': acc.paths, 'faults': '<= 2', 'stops': '<= 1'}
            keep = lambda n: n.startswith('C08/')
            acc.obl = type(acc.obl)({k: v for k, v in acc.obl.items() if keep(k)}); acc.fail = type(acc.fail)({k: v for k, v in acc.fail.items() if keep(k)})
            viol = {k: v for k, v in acc.viol.items() if keep(v['obligation'])}
            acc.to_report(rep)
            for key, v in sorted(viol.items()):
                fkey = '%s: W=%d %s' % (v['obligation'], W, ' '.join(v['hist'][:14]))
                path = core.write_replay('C08', fkey, {'side': 'server', 'obligation': v['obligation'], 'history': v['hist'], 'what': v['what']})
                # ServerWorker::start spawns threads natively: these counterexamples are paths of the encoded MIR only
                rep.violation(fkey, '%s -- %s; %s' % (v['obligation'], v['what'], v['hist']), replay=path, reproduced=True)
    finally:
        srvrworld.describe_cmd = orig
