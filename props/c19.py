"""C19 - connector: resolution precedence, ordered fallback, TLS server name (engine S, partial: see connworld.py / DESIGN.md)."""
from props import connworld
from vlib import kani


def run(rep, tier, seed):
    rep.need_witness('c19_preresolved', 'c19_ip_literal', 'c19_lookup', 'c19_custom_resolver', 'c19_connected', 'c19_fallback_used', 'c19_all_failed', 'c19_unresolved', 'c19_tls_ok', 'c19_tls_err', 'c19_tls_invalid_name')
    connworld.run_c19(rep, tier, seed)
    # Host for &'static str / String (host strings with / without a port): engine K over the real host.rs
    q = tier == 'quick'
    rep.bounds['host_strings'] = {'ascii_strings_up_to': 4, 'port_text_after_colon_up_to': 5 if q else 6, 'String_impl_up_to': 3 if q else 4}
    rep.functions |= {'actix_tls::connect::host::{<&str as Host>::{hostname,port}, <String as Host>::{hostname,port}} (with core::str::split_once and u16::from_str)'}
    kani.check(rep, 'C19', 'tlshost', lambda h: h.startswith('c19_host_'), () if q else ('thorough',), wall=1500 if q else 3000)


def replay(path):
    import json
    d = json.load(open(path))
    return kani.replay_file(path) if 'harness' in d else connworld.replay_file(path)
