"""C19 - connector: resolution precedence, ordered fallback, TLS server name (engine S, partial: see connworld.py / DESIGN.md)."""
from props import connworld


def run(rep, tier, seed):
    rep.need_witness('c19_preresolved', 'c19_ip_literal', 'c19_lookup', 'c19_connected', 'c19_fallback_used', 'c19_all_failed', 'c19_unresolved', 'c19_tls_ok', 'c19_tls_err', 'c19_tls_invalid_name')
    connworld.run_c19(rep, tier, seed)


def replay(path):
    import json
    d = json.load(open(path)); print(json.dumps(d, indent=1)); print('(engine-S path; re-run ./check C19 to re-decide it on the current tree)')
    return 1
