"""C19 - connector: resolution precedence, ordered fallback, TLS server name (engine S, partial: see connworld.py / DESIGN.md)."""
from props import connworld


def run(rep, tier, seed):
    rep.need_witness('c19_preresolved', 'c19_ip_literal', 'c19_lookup', 'c19_custom_resolver', 'c19_connected', 'c19_fallback_used', 'c19_all_failed', 'c19_unresolved', 'c19_tls_ok', 'c19_tls_err', 'c19_tls_invalid_name')
    connworld.run_c19(rep, tier, seed)


def replay(path): return connworld.replay_file(path)
