"""Engine-S drivers for actix-rt: `<SystemController as Future>::poll` (C09) and `<ArbiterRunner as Future>::poll` with the
handle methods (C10), from the MIR of the mount crate (real arbiter.rs / system.rs of /repo)."""
import os, json, random, time
import z3
from vlib import core, mir
from mirsym import parse_mir, Exec, Ref, LCell, Cell, Enum, Struct, Tuple, Abort, Panic, Unknown, UNIT, CoroutineVal
import models, srvmodels
from models import (MODELS, parse_layouts, ChanObj, TxObj, RxObj, DictObj, OneshotTx, ContextObj, WakerObj, BoxObj)
from explore import explore_levels, boundary, Acc

_BIN = {}


def build():
    if 'rtdrv' in _BIN: return _BIN['rtdrv']
    d = os.path.join(core.VERIF, 'mount', 'actix-rt')
    target = core.workdir('mount-target', 'actix-rt-native')
    r = core.sh(['cargo', 'build', '--offline', '--release', '--features', 'drv', '--target-dir', target], cwd=d, timeout=1800)
    if r.returncode != 0: raise core.Inconclusive('native build of the actix-rt mount crate failed:\n' + r.stderr[-2500:])
    _BIN['rtdrv'] = os.path.join(target, 'release', 'rtdrv'); return _BIN['rtdrv']


def run_native(lines, mode):
    r = core.sh([build(), mode], input='\n'.join(lines) + '\n', timeout=300)
    out = r.stdout.rstrip('\n').split('\n')
    if r.returncode != 0 or len(out) != len(lines): raise core.Inconclusive('native rt driver failed: ' + r.stderr[-800:])
    return out


class RtCtx:
    def __init__(self):
        self.fns = parse_mir(mir.mount_crate('actix-rt'))
        self.structs, self.enums = parse_layouts([core.REPO + '/actix-rt/src/system.rs', core.REPO + '/actix-rt/src/arbiter.rs'])
        rx = Exec(self.fns, MODELS, self.structs, self.enums)
        def M(ty, meth, tr=None):
            f = rx.resolve((ty, tr, meth))
            if f is None: raise core.Inconclusive('cannot locate %s::%s in the MIR dump of the actix-rt mount crate' % (ty, meth))
            return f
        self.SYS_POLL = M('SystemController', 'poll', 'Future'); self.ARB_POLL = M('ArbiterRunner', 'poll', 'Future')
        self.H_SPAWN = M('ArbiterHandle', 'spawn'); self.H_SPAWN_FN = M('ArbiterHandle', 'spawn_fn'); self.H_STOP = M('ArbiterHandle', 'stop'); self.H_CLONE = M('ArbiterHandle', 'clone', 'Clone')
        self.STOP_CODE = M('System', 'stop_with_code')
        for need in ('SystemController', 'ArbiterHandle', 'ArbiterRunner', 'System'):
            if need not in self.structs: raise core.Inconclusive('layout of %s not found' % need)

    def mk(self):
        ex = Exec(self.fns, MODELS, self.structs, self.enums); ex.wakes = {}; ex.spawned = []; ex.spawn_queue = []
        return ex


def byname(ctx, sname, **kw):
    order = ctx.structs[sname]
    if set(order) != set(kw): raise core.Inconclusive('fields of %s changed: %s' % (sname, order))
    return [kw[k] for k in order]


# ------------------------------------------------------------------ C09
class SysWorld:
    def __init__(self, ctx, ex):
        self.c, self.ex = ctx, ex
        self.cmd = ChanObj(); self.tx = OneshotTx()
        self.arb = [ChanObj() for _ in range(3)]
        self.ctl = Struct('SystemController', byname(ctx, 'SystemController', stop_tx=Enum('Option', 'Some', [self.tx]), cmd_rx=RxObj(self.cmd), arbiters=DictObj()))
        # `System` handle whose stop_with_code is the real method (it sends SystemCommand::Exit on sys_tx)
        self.system = Struct('System', byname(ctx, 'System', id=z3.BitVecVal(0, 64), sys_tx=TxObj(self.cmd),
                             arbiter_handle=Struct('ArbiterHandle', [TxObj(ChanObj())])))
        self.cx = ContextObj(WakerObj(1))
        self.reg = set(); self.first = None; self.expected = [0, 0, 0]; self.stops = [0, 0, 0]; self.code = None
        self.hist = []; ex.hist = self.hist; self.out = []; self.nexit = 0; self.dead = set()
    def apply(self, op, code=None):
        ex = self.ex
        if op.startswith('reg:'):
            k = int(op[4:]); self.cmd.q.append(Enum('SystemCommand', 'RegisterArbiter', [z3.BitVecVal(k, 64), Struct('ArbiterHandle', [TxObj(self.arb[k])])]))
            self.hist.append(op)
        elif op.startswith('dereg:'):
            self.cmd.q.append(Enum('SystemCommand', 'DeregisterArbiter', [z3.BitVecVal(int(op[6:]), 64)])); self.hist.append(op)
        elif op.startswith('die:'):
            # arbiter k's loop has ended (its command receiver is gone) but it has not (yet) been deregistered
            k = int(op[4:]); self.arb[k].rx_alive = False; self.dead.add(k); self.hist.append(op)
        elif op.startswith('order:'): pass
        elif op.startswith('exit'):
            if ':' in op: c = z3.BitVecVal(int(op[5:]) & 0xffffffff, 32); self.hist.append(op)
            else:
                name = 'code%d' % self.nexit; c = z3.BitVec(name, 32); self.hist.append('exit:' + name)
            self.nexit += 1
            ex.run(self.c.STOP_CODE, [Ref(LCell(Cell(self.system))), c])      # real System::stop_with_code
        elif op == 'poll':
            for c in list(self.cmd.q):      # reference model: replay the queued commands
                if c.variant == 'RegisterArbiter': self.reg.add(z3.simplify(c.f[0].v).as_long())
                elif c.variant == 'DeregisterArbiter': self.reg.discard(z3.simplify(c.f[0].v).as_long())
                else:
                    for k in self.reg:
                        if k not in self.dead: self.expected[k] += 1      # an arbiter that has already ended cannot be told to stop; every live one must be
                    if self.first is None: self.first = c.f[0].v
            r = ex.run(self.c.SYS_POLL, [Ref(LCell(Cell(self.ctl))), Ref(LCell(Cell(self.cx)))])
            for k in range(3):
                self.stops[k] += sum(1 for x in self.arb[k].q if getattr(x, 'variant', None) == 'Stop'); self.arb[k].q = []
            self.hist.append('poll')
            self.last_ready = r.variant == 'Ready'
            return r
    def line(self):
        s = self.tx.sent
        code = 'none' if s is None else str(z3.simplify(z3.BV2Int(s, is_signed=True)).as_long())
        return 'P=%s code=%s stops=[%d,%d,%d]' % ('ready' if self.last_ready else 'pending', code, *self.stops)


def c09_body(ctx, depth):
    def body(ex, acc):
        w = SysWorld(ctx, ex)
        for step in range(depth):
            boundary(ex, acc, step + 1, [w.ctl, w.cmd, w.tx, sorted(w.reg), sorted(w.dead), w.first, w.expected, w.stops, w.nexit])
            ops = ['reg:%d' % k for k in range(3)] + ['dereg:%d' % k for k in range(3)] + ['die:%d' % k for k in range(3) if k not in w.dead] + (['exit'] if w.nexit < 2 else []) + ['poll', 'end']
            op = ex.pick('sys', ops)
            if op == 'end': break
            w.apply(op); acc.transitions += 1
            if op == 'poll':
                acc.violated(ex, 'C09/controller_keeps_running_while_the_system_handle_lives', w.last_ready, hist=w.hist)
                for k in range(3):
                    acc.violated(ex, 'C09/exactly_the_registered_arbiters_are_stopped', w.stops[k] != w.expected[k], hist=w.hist,
                                 what='arbiter %d received %d Stop commands, expected %d' % (k, w.stops[k], w.expected[k]))
                if w.first is None:
                    acc.violated(ex, 'C09/no_exit_code_without_stop', w.tx.sent is not None, hist=w.hist)
                else:
                    if w.tx.sent is None: acc.violated(ex, 'C09/first_exit_code_is_delivered', True, hist=w.hist, what='exit code not delivered')
                    else: acc.violated(ex, 'C09/first_exit_code_is_delivered', w.tx.sent != w.first, hist=w.hist, what='run_with_code would not return the first stop code')
                    acc.wit['c09_exit_delivered'] += 1
                    if w.nexit == 2: acc.wit['c09_two_stops'] += 1
                if any(w.stops): acc.wit['c09_arbiter_stopped'] += 1
        boundary(ex, acc, depth + 1, [w.ctl, w.cmd, w.tx, sorted(w.reg), sorted(w.dead), w.first, w.expected, w.stops, w.nexit])
        if len(acc.samples) < 3 and len(w.hist) >= 4: acc.samples.append(' '.join(w.hist))
    return body


def c09_sym_trace(ctx, tokens):
    ex = ctx.mk(); w = SysWorld(ctx, ex); out = []
    # a recorded iteration order (`order:<keys>`) is replayed; without one the keys are visited in ascending order
    orders = [t[6:] for t in tokens if t.startswith('order:')]
    ex.hash_order_choice = False
    if orders:
        import models as _m
        ex.forced_orders = orders
    for t in tokens:
        w.apply(t)
        if t == 'poll': out.append(w.line())
    return ' ; '.join(out)


# ------------------------------------------------------------------ C10
class Task:
    """a tagged task: used as a future (`spawn`) - it counts as started when the arbiter loop hands it to spawn_local - and as
    a FnOnce (`spawn_fn`) - the real `async { f() }` wrapper is resumed when spawned and calls it"""
    canon_fields = ('tag',)
    def __init__(self, tag): self.tag = tag
    def model_drop(self, ex): pass
    def call_once(self, ex): ex.spawned.append(self); return UNIT


class ArbWorld:
    def __init__(self, ctx, ex):
        self.c, self.ex = ctx, ex
        self.ch = ChanObj(track=True)
        self.handles = [Struct('ArbiterHandle', [TxObj(self.ch)])]
        self.rxobj = RxObj(self.ch)
        self.runner = Struct('ArbiterRunner', [self.rxobj])
        self.cx = ContextObj(WakerObj(1))
        self.done = False; self.runner_alive = True
        self.hist = []; ex.hist = self.hist; self.out = []
        self.sent = []; self.stop_sent = False; self.ntag = 0   # tags accepted (r=1) before the first accepted stop
    def live_handles(self): return [i for i, h in enumerate(self.handles) if h is not None]
    def apply(self, op):
        ex = self.ex; p = op.split(':'); self.hist.append(op)
        if p[0] in ('spawn', 'spawnfn'):
            h = int(p[1]); tag = int(p[2])
            r = ex.run(self.c.H_SPAWN if p[0] == 'spawn' else self.c.H_SPAWN_FN, [Ref(LCell(Cell(self.handles[h]))), Task(tag)])
            ok = z3.is_true(z3.simplify(r)); self.out.append('r=%d' % (1 if ok else 0))
            return ('spawn', ok, tag)
        if p[0] == 'stop':
            r = ex.run(self.c.H_STOP, [Ref(LCell(Cell(self.handles[int(p[1])])))])
            ok = z3.is_true(z3.simplify(r)); self.out.append('r=%d' % (1 if ok else 0))
            return ('stop', ok, None)
        if p[0] == 'clone':
            self.handles.append(ex.run(self.c.H_CLONE, [Ref(LCell(Cell(self.handles[int(p[1])])))])); return None
        if p[0] == 'droph':
            ex.drop(self.handles[int(p[1])]); self.handles[int(p[1])] = None
            return None
        if p[0] == 'dropr':
            if self.runner_alive: ex.drop(self.runner); self.runner_alive = False
            return None
        if p[0] == 'poll':
            ready = self.done
            if self.runner_alive and not self.done:
                r = ex.run(self.c.ARB_POLL, [Ref(LCell(Cell(self.runner))), Ref(LCell(Cell(self.cx)))])
                ready = r.variant == 'Ready'
                run_spawned(ex)
                if ready:
                    self.done = True; ex.drop(self.runner); self.runner_alive = False
            self.out.append('P=%s ran=%s' % ('ready' if ready else 'pending', [t.tag for t in ex.spawned]))
            return ('poll', ready, None)


def unbox(t):
    from mirsym import Ref
    while isinstance(t, (BoxObj, Ref)):
        t = t.content.v if isinstance(t, BoxObj) else t.lv.get()
    return t


def c10_body(ctx, depth):
    def body(ex, acc):
        w = ArbWorld(ctx, ex)
        exp = []; stopped = False; gone = False
        def roots(): return [w.runner, w.ch, w.handles, w.done, w.runner_alive, [t.tag for t in ex.spawned], list(ex.spawn_queue), exp, stopped, w.ntag]
        for step in range(depth):
            boundary(ex, acc, step + 1, roots())
            L = w.live_handles()
            ops = []
            for h in L[:2]:
                ops += ['spawn:%d' % h, 'stop:%d' % h]
            if L and len(w.handles) < 2: ops.append('clone:%d' % L[0])
            if L: ops.append('droph:%d' % L[-1])
            if w.runner_alive: ops.append('dropr')
            ops += ['poll', 'end']
            op = ex.pick('arb', ops)
            if op == 'end': break
            if op.startswith('spawn'):
                kind = ex.pick('kind', ['spawn', 'spawnfn']); op = '%s:%s:%d' % (kind, op.split(':')[1], w.ntag); w.ntag += 1
            was_alive = w.runner_alive and not w.done
            res = w.apply(op); acc.transitions += 1
            if res is None: continue
            if res[0] == 'spawn':
                acc.violated(ex, 'C10/spawn_reports_false_exactly_when_the_arbiter_is_gone', res[1] != w.runner_alive, hist=w.hist,
                             what='spawn returned %s while the arbiter loop is %s' % (res[1], 'alive' if w.runner_alive else 'gone'))
                if res[1] and not stopped: exp.append(res[2])
                if not res[1]: acc.wit['c10_spawn_refused'] += 1
            elif res[0] == 'stop':
                if res[1]: stopped = True
            elif res[0] == 'poll':
                ran = [t.tag for t in ex.spawned]
                # started tasks are always a prefix of what was accepted before the first stop: in order, at most once, nothing after stop
                acc.violated(ex, 'C10/tasks_start_in_send_order_at_most_once_nothing_after_stop', ran != exp[:len(ran)], hist=w.hist,
                             what='started %s, accepted before the first stop %s' % (ran, exp))
                if was_alive:
                    # the loop drains its queue on every poll: everything accepted before the stop has started now
                    acc.violated(ex, 'C10/everything_sent_before_stop_is_started', ran != exp, hist=w.hist, what='started %s, accepted before the first stop %s' % (ran, exp))
                    acc.violated(ex, 'C10/loop_ends_exactly_on_stop_or_when_all_handles_are_gone', res[1] != (stopped or w.ch.senders == 0), hist=w.hist,
                                 what='poll returned %s; stop sent: %s; live handles: %s' % ('Ready' if res[1] else 'Pending', stopped, w.live_handles()))
                if res[1]: acc.wit['c10_loop_ended'] += 1
                if ran: acc.wit['c10_tasks_started'] += 1
        boundary(ex, acc, depth + 1, roots())
        if len(acc.samples) < 3 and len(w.hist) >= 4: acc.samples.append(' '.join(w.hist))
    return body


def c10_sym_trace(ctx, tokens):
    ex = ctx.mk(); w = ArbWorld(ctx, ex)
    for t in tokens: w.apply(t)
    return ' ; '.join(w.out)


def m_spawn_local(ex, a, t):
    # tokio::task::spawn_local only queues the task; it first runs after the arbiter loop's current poll has returned
    ex.spawn_queue.append(unbox(a[0]))
    return models.Opaque('join-handle')


def run_spawned(ex):
    while ex.spawn_queue:
        task = ex.spawn_queue.pop(0)
        if isinstance(task, CoroutineVal): models.poll_coroutine(ex, task)      # the task starts: resume the real async block once
        else: ex.spawned.append(task)


MODELS[:0] = [(r'tokio::task::spawn_local::<', m_spawn_local), (r'(?:^|::)spawn_local::<', m_spawn_local)]


# ------------------------------------------------------------------ runners
def _rand_sys(rnd):
    ops = []
    for _ in range(rnd.randint(2, 10)):
        k = rnd.choice(['reg', 'reg', 'dereg', 'die', 'exit', 'poll', 'poll'])
        if k in ('reg', 'dereg'): ops.append('%s:%d' % (k, rnd.randint(0, 2)))
        elif k == 'die':
            d = rnd.randint(0, 2)
            if 'die:%d' % d not in ops: ops.append('die:%d' % d)
        elif k == 'exit': ops.append('exit:%d' % rnd.choice([0, 1, 7, -3, 255]))
        else: ops.append('poll')
    return ops + ['poll']


def _rand_arb(rnd):
    ops = []; nh = 1; alive = [0]; tag = 0; runner = True
    for _ in range(rnd.randint(2, 10)):
        k = rnd.choice(['spawn', 'spawn', 'spawnfn', 'stop', 'clone', 'droph', 'dropr', 'poll', 'poll'])
        if k in ('spawn', 'spawnfn') and alive: ops.append('%s:%d:%d' % (k, rnd.choice(alive), tag)); tag += 1
        elif k == 'stop' and alive: ops.append('stop:%d' % rnd.choice(alive))
        elif k == 'clone' and alive and nh < 3: ops.append('clone:%d' % rnd.choice(alive)); alive.append(nh); nh += 1
        elif k == 'droph' and alive: h = rnd.choice(alive); alive.remove(h); ops.append('droph:%d' % h)
        elif k == 'dropr' and runner and rnd.random() < 0.3: ops.append('dropr'); runner = False
        elif k == 'poll': ops.append('poll')
    return ops + ['poll']


def run_rt(rep, pid, tier, seed):
    rep.engines.add('mirsym (engine S) + z3 %s' % z3.get_version_string())
    rep.models |= {'tokio unbounded mpsc = FIFO list (send fails iff receiver dropped; poll_recv: Some / None iff no sender left / Pending)',
                   'tokio oneshot = slot', 'HashMap<usize,_> = dictionary with concrete keys', 'tokio::task::spawn_local = append to an inspectable list (a spawned task is "started")'}
    rep.assumptions += ['"from any thread" = position in the linearizable command channel (a solver choice)',
                        'engine S is validated on every run against the mount crate compiled natively with the real tokio']
    ctx = RtCtx(); build()
    rnd = random.Random(seed); n = 80 if tier == 'quick' else 300
    if pid == 'C09':
        seqs = [_rand_sys(rnd) for _ in range(n)]; nat = run_native([' '.join(s) for s in seqs], 'system'); sym = [c09_sym_trace(ctx, s) for s in seqs]
    else:
        seqs = [_rand_arb(rnd) for _ in range(n)]; nat = run_native([' '.join(s) for s in seqs], 'arbiter'); sym = [c10_sym_trace(ctx, s) for s in seqs]
    bad = [(s, a, b) for s, a, b in zip(seqs, nat, sym) if a.strip() != b.strip()]
    rep.counters['traces_validated_against_impl'] += n
    if bad: rep.inconc('differential validation mismatch (actix-rt): %r' % (bad[0],)); return
    depth = {'C09': (5, 6), 'C10': (8, 10)}[pid][0 if tier == 'quick' else 1]
    body = c09_body(ctx, depth) if pid == 'C09' else c10_body(ctx, depth)
    t0 = time.time()
    acc = explore_levels(ctx.mk, body, depth + 1, seed=seed)
    rep.bounds.update({'command_sequence_length': depth, 'arbiters': 3 if pid == 'C09' else 1, 'exit_codes': 'symbolic i32, at most two Exit commands' if pid == 'C09' else None,
                       'handles': '<= 2 (owner + one clone)' if pid == 'C10' else None, 'distinct_states_per_level': acc.level_counts, 'wall_s': round(time.time() - t0, 1)})
    acc.to_report(rep)
    for key, v in sorted(acc.viol.items()):
        toks = []
        for h in v['hist']:
            if h.startswith('exit:code'):
                val = int(v['model'].get(h[5:], 0)); val = val - (1 << 32) if val >= (1 << 31) else val
                toks.append('exit:%d' % val)
            else: toks.append(h)
        if toks[-1] != 'poll': toks.append('poll')
        mode = 'system' if pid == 'C09' else 'arbiter'
        sym1 = (c09_sym_trace if pid == 'C09' else c10_sym_trace)(ctx, toks)
        # the native HashMap has a random iteration order per instance: a counterexample that depends on the order (an
        # `order:` entry in its history) is replayed up to 64 times and must show the engine's trace at least once
        tries = 64 if any(t.startswith('order:') for t in toks) else 1
        nats = run_native([' '.join(t for t in toks if not t.startswith('order:'))] * tries, mode)
        hit = [n for n in nats if n.strip() == sym1.strip()]
        nat1 = hit[0] if hit else nats[0]
        reproduced = bool(hit)       # the native run shows the same observable trace that violates the obligation
        fkey = '%s: ops=[%s]' % (v['obligation'], ' '.join(h.split(':')[0] if h.startswith('exit') else h for h in v['hist']))
        path = core.write_replay(pid, fkey, {'mode': mode, 'tokens': toks, 'obligation': v['obligation'], 'native_trace': nat1, 'engine_trace': sym1})
        rep.violation(fkey, '%s -- %s; ops=%s; native trace: %s' % (v['obligation'], v['what'], toks, nat1), replay=path, reproduced=reproduced)


def replay_file(path):
    d = json.load(open(path))
    nat1 = run_native([' '.join(d['tokens'])], d['mode'])[0]
    print('ops:', ' '.join(d['tokens'])); print('native trace:', nat1); print('trace at the time of the report:', d['native_trace'])
    return 1 if nat1.strip() == d['engine_trace'].strip() else 0
