//! Model of tokio-openssl 0.6: `SslStream::{poll_accept, poll_connect}` follow a script (`Pending^k` then `Ok` | `Err`),
//! one slot per stream in creation order; reads and writes are passed straight through to the inner stream.
use openssl::{error::ErrorStack, ssl};
use std::{io, pin::Pin, task::{Context, Poll}};
use tokio::io::{AsyncRead, AsyncWrite, ReadBuf};
#[derive(Clone, Copy, Debug)] pub struct Hs { pub pend: u8, pub ok: bool }
pub static mut HS: [Hs; 8] = [Hs { pend: 0, ok: true }; 8];
pub static mut HS_NEXT: usize = 0;
pub static mut NAMES: Vec<Option<String>> = Vec::new();
#[derive(Debug)] pub struct SslStream<S> { io: S, k: usize, done: bool, pub ssl: ssl::Ssl }
impl<S: AsyncRead + AsyncWrite> SslStream<S> {
    pub fn new(ssl: ssl::Ssl, io: S) -> Result<Self, ErrorStack> {
        #[allow(static_mut_refs)] let k = unsafe { let k = HS_NEXT; HS_NEXT += 1; NAMES.push(ssl.verify_host.clone()); k };
        Ok(SslStream { io, k, done: false, ssl })
    }
    fn step(self: Pin<&mut Self>) -> Poll<Result<(), ssl::Error>> {
        let this = unsafe { self.get_unchecked_mut() };
        assert!(!this.done, "handshake polled after completion");
        #[allow(static_mut_refs)]
        unsafe { if HS[this.k].pend > 0 { HS[this.k].pend -= 1; Poll::Pending } else { this.done = true; if HS[this.k].ok { Poll::Ready(Ok(())) } else { Poll::Ready(Err(ssl::Error(5))) } } }
    }
    pub fn poll_accept(self: Pin<&mut Self>, _: &mut Context<'_>) -> Poll<Result<(), ssl::Error>> { self.step() }
    pub fn poll_connect(self: Pin<&mut Self>, _: &mut Context<'_>) -> Poll<Result<(), ssl::Error>> { self.step() }
    pub fn get_ref(&self) -> &S { &self.io }
    pub fn get_mut(&mut self) -> &mut S { &mut self.io }
}
impl<S: AsyncRead + Unpin> AsyncRead for SslStream<S> { fn poll_read(mut self: Pin<&mut Self>, cx: &mut Context<'_>, b: &mut ReadBuf<'_>) -> Poll<io::Result<()>> { Pin::new(&mut self.io).poll_read(cx, b) } }
impl<S: AsyncWrite + Unpin> AsyncWrite for SslStream<S> {
    fn poll_write(mut self: Pin<&mut Self>, cx: &mut Context<'_>, b: &[u8]) -> Poll<io::Result<usize>> { Pin::new(&mut self.io).poll_write(cx, b) }
    fn poll_flush(mut self: Pin<&mut Self>, cx: &mut Context<'_>) -> Poll<io::Result<()>> { Pin::new(&mut self.io).poll_flush(cx) }
    fn poll_shutdown(mut self: Pin<&mut Self>, cx: &mut Context<'_>) -> Poll<io::Result<()>> { Pin::new(&mut self.io).poll_shutdown(cx) }
    fn poll_write_vectored(mut self: Pin<&mut Self>, cx: &mut Context<'_>, b: &[io::IoSlice<'_>]) -> Poll<io::Result<usize>> { Pin::new(&mut self.io).poll_write_vectored(cx, b) }
    fn is_write_vectored(&self) -> bool { self.io.is_write_vectored() }
}
