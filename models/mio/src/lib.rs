//! Model of `mio` 1.0 as used by actix-server: readiness is produced by the harness / the engine-S driver.
//! Contract modelled: `Registry::{register,deregister}` flip a per-source flag (deregistering an unregistered
//! source is an error); listeners' `accept` pops a scripted result; `Waker::wake` counts; `Poll::poll` is driven
//! from outside (engine S replaces it by the environment turn; natively a hook installed by the harness).
use std::{cell::{Cell, RefCell}, io, time::Duration};

#[derive(Clone, Copy, PartialEq, Eq, Debug, Hash, PartialOrd, Ord)]
pub struct Token(pub usize);
impl From<Token> for usize { fn from(t: Token) -> usize { t.0 } }

#[derive(Clone, Copy, Debug)]
pub struct Interest;
impl Interest { pub const READABLE: Interest = Interest; pub const WRITABLE: Interest = Interest; }

#[derive(Debug)]
pub struct Registry { _p: () }
impl Registry {
    pub fn register<S: event::Source + ?Sized>(&self, s: &mut S, t: Token, i: Interest) -> io::Result<()> { s.register(self, t, i) }
    pub fn reregister<S: event::Source + ?Sized>(&self, s: &mut S, t: Token, i: Interest) -> io::Result<()> { s.reregister(self, t, i) }
    pub fn deregister<S: event::Source + ?Sized>(&self, s: &mut S) -> io::Result<()> { s.deregister(self) }
}
pub mod event {
    use super::*;
    pub trait Source {
        fn register(&mut self, registry: &Registry, token: Token, interests: Interest) -> io::Result<()>;
        fn reregister(&mut self, registry: &Registry, token: Token, interests: Interest) -> io::Result<()>;
        fn deregister(&mut self, registry: &Registry) -> io::Result<()>;
    }
    #[derive(Debug)]
    pub struct Event { pub(crate) token: Token }
    impl Event { pub fn token(&self) -> Token { self.token } }
}
#[derive(Debug)]
pub struct Events { pub list: Vec<event::Event> }
impl Events {
    pub fn with_capacity(_: usize) -> Events { Events { list: Vec::with_capacity(4) } }
    pub fn iter(&self) -> std::slice::Iter<'_, event::Event> { self.list.iter() }
    pub fn push(&mut self, t: Token) { self.list.push(event::Event { token: t }) }
    pub fn clear(&mut self) { self.list.clear() }
}

pub type PollHook = Box<dyn FnMut(&mut Events, Option<Duration>) -> io::Result<()>>;
thread_local! { pub static POLL_HOOK: RefCell<Option<PollHook>> = const { RefCell::new(None) }; }

#[derive(Debug)]
pub struct Poll { registry: Registry }
impl Poll {
    pub fn new() -> io::Result<Poll> { Ok(Poll { registry: Registry { _p: () } }) }
    pub fn registry(&self) -> &Registry { &self.registry }
    /// Natively the harness installs `POLL_HOOK` (it fills the event batch and may end the schedule by panicking
    /// with a marker payload); without a hook the call returns an empty batch.
    pub fn poll(&mut self, events: &mut Events, timeout: Option<Duration>) -> io::Result<()> {
        events.clear();
        let hook = POLL_HOOK.with(|h| h.borrow_mut().take());
        match hook {
            Some(mut f) => { let r = f(events, timeout); POLL_HOOK.with(|h| *h.borrow_mut() = Some(f)); r }
            None => Ok(()),
        }
    }
}
#[derive(Debug)]
pub struct Waker { pub pending: Cell<usize> }
unsafe impl Sync for Waker {}
unsafe impl Send for Waker {}
impl Waker {
    pub fn new(_r: &Registry, _t: Token) -> io::Result<Waker> { Ok(Waker { pending: Cell::new(0) }) }
    pub fn wake(&self) -> io::Result<()> { self.pending.set(self.pending.get() + 1); Ok(()) }
}

pub mod net {
    //! Scripted listeners and opaque streams. A stream is just an identifier.
    use super::*;
    use std::{collections::VecDeque, path::PathBuf};

    /// One scripted answer of `accept()`.
    #[derive(Clone, Copy, Debug, PartialEq, Eq)]
    pub enum AcceptResult { Stream, Refused, Aborted, Reset, Other }

    #[derive(Debug)]
    pub struct ListenerModel {
        pub script: RefCell<VecDeque<AcceptResult>>,
        pub next_id: Cell<usize>,
        pub id_base: usize,
        pub registered: bool,
        pub dereg_calls: usize,
    }
    impl ListenerModel {
        pub fn new(id_base: usize) -> Self { ListenerModel { script: RefCell::new(VecDeque::new()), next_id: Cell::new(0), id_base, registered: false, dereg_calls: 0 } }
        fn accept(&self) -> io::Result<usize> {
            match self.script.borrow_mut().pop_front() {
                None => Err(io::ErrorKind::WouldBlock.into()),
                Some(AcceptResult::Stream) => { let id = self.next_id.get(); self.next_id.set(id + 1); Ok(self.id_base + id) }
                Some(AcceptResult::Refused) => Err(io::ErrorKind::ConnectionRefused.into()),
                Some(AcceptResult::Aborted) => Err(io::ErrorKind::ConnectionAborted.into()),
                Some(AcceptResult::Reset) => Err(io::ErrorKind::ConnectionReset.into()),
                Some(AcceptResult::Other) => Err(io::ErrorKind::Other.into()),
            }
        }
        fn register(&mut self) -> io::Result<()> { self.registered = true; Ok(()) }
        fn deregister(&mut self) -> io::Result<()> {
            self.dereg_calls += 1;
            if !self.registered { return Err(io::ErrorKind::NotFound.into()); }
            self.registered = false; Ok(())
        }
    }

    #[derive(Debug)] pub struct TcpStream(pub usize);
    #[derive(Debug)] pub struct UnixStream(pub usize);
    #[derive(Debug)] pub struct TcpListener(pub ListenerModel);
    #[derive(Debug)] pub struct UnixListener(pub ListenerModel, pub Option<PathBuf>);
    impl Drop for UnixListener { fn drop(&mut self) { if let Some(p) = &self.1 { let _ = std::fs::remove_file(p); } } }

    impl TcpListener {
        pub fn model(id_base: usize) -> Self { TcpListener(ListenerModel::new(id_base)) }
        pub fn from_std(_: std::net::TcpListener) -> Self { unimplemented!("model mio: real sockets are outside the checks") }
        pub fn accept(&self) -> io::Result<(TcpStream, std::net::SocketAddr)> { self.0.accept().map(|id| (TcpStream(id), ([127, 0, 0, 1], 1).into())) }
        pub fn local_addr(&self) -> io::Result<std::net::SocketAddr> { Ok(([127, 0, 0, 1], 80).into()) }
    }
    impl UnixListener {
        /// A bound Unix listener owns a socket file: the model creates a plain file at `path` (under $VERIF_WORK).
        pub fn model(id_base: usize, path: Option<PathBuf>) -> Self {
            let path = path.map(|p| {
                let dir = std::env::var("VERIF_WORK").unwrap_or_else(|_| "/var/tmp/actix-net-verif".into());
                let full = PathBuf::from(dir).join("socks").join(format!("{}-{}", std::process::id(), p.file_name().unwrap().to_string_lossy()));
                let _ = std::fs::create_dir_all(full.parent().unwrap());
                let _ = std::fs::write(&full, b"");
                full
            });
            UnixListener(ListenerModel::new(id_base), path)
        }
        pub fn linked(&self) -> bool { self.1.as_ref().map(|p| p.exists()).unwrap_or(false) }
        pub fn from_std(_: std::os::unix::net::UnixListener) -> Self { unimplemented!("model mio: real sockets are outside the checks") }
        pub fn bind<P: AsRef<std::path::Path>>(_: P) -> io::Result<Self> { Err(io::ErrorKind::Unsupported.into()) }
        pub fn accept(&self) -> io::Result<(UnixStream, std::os::unix::net::SocketAddr)> {
            self.0.accept().and_then(|id| Ok((UnixStream(id), std::os::unix::net::SocketAddr::from_pathname("/peer")?)))
        }
        pub fn local_addr(&self) -> io::Result<std::os::unix::net::SocketAddr> {
            match &self.1 { Some(p) => std::os::unix::net::SocketAddr::from_pathname(p), None => Err(io::ErrorKind::Other.into()) }
        }
    }
    macro_rules! source { ($t:ty) => {
        impl event::Source for $t {
            fn register(&mut self, _: &Registry, _: Token, _: Interest) -> io::Result<()> { self.0.register() }
            fn reregister(&mut self, _: &Registry, _: Token, _: Interest) -> io::Result<()> { self.0.register() }
            fn deregister(&mut self, _: &Registry) -> io::Result<()> { self.0.deregister() }
        }
    } }
    source!(TcpListener); source!(UnixListener);
    impl std::os::unix::io::IntoRawFd for TcpStream { fn into_raw_fd(self) -> i32 { self.0 as i32 } }
    impl std::os::unix::io::IntoRawFd for UnixStream { fn into_raw_fd(self) -> i32 { self.0 as i32 } }
}
