//! Type-check shell of the `openssl` crate (the part actix-tls names). Nothing cryptographic is modelled; handshakes are
//! scripted in the model `tokio-openssl`. `ConnectConfiguration::into_ssl(host)` records the host name it is given.
pub mod error {
    #[derive(Debug, Clone)] pub struct ErrorStack(pub ());
    impl std::fmt::Display for ErrorStack { fn fmt(&self, f: &mut std::fmt::Formatter<'_>) -> std::fmt::Result { f.write_str("openssl error stack (model)") } }
    impl std::error::Error for ErrorStack {}
}
pub mod ssl {
    use super::error::ErrorStack;
    #[derive(Debug)] pub struct Error(pub i32);
    impl std::fmt::Display for Error { fn fmt(&self, f: &mut std::fmt::Formatter<'_>) -> std::fmt::Result { write!(f, "ssl error {} (model)", self.0) } }
    impl std::error::Error for Error {}
    #[derive(Debug)] pub struct AlpnError(pub ());
    #[derive(Debug)] pub enum HandshakeError<S> { SetupFailure(ErrorStack), Failure(S), WouldBlock(S) }
    #[derive(Debug, Clone, Copy)] pub struct SslMethod(());
    impl SslMethod { pub fn tls() -> SslMethod { SslMethod(()) } pub fn tls_client() -> SslMethod { SslMethod(()) } pub fn tls_server() -> SslMethod { SslMethod(()) } }
    #[derive(Debug)] pub struct SslContextRef(());
    static CTX: SslContextRef = SslContextRef(());
    #[derive(Debug, Clone)] pub struct SslAcceptor(());
    #[derive(Debug)] pub struct SslAcceptorBuilder(());
    impl SslAcceptor {
        pub fn model() -> SslAcceptor { SslAcceptor(()) }
        pub fn mozilla_intermediate(_: SslMethod) -> Result<SslAcceptorBuilder, ErrorStack> { Ok(SslAcceptorBuilder(())) }
        pub fn context(&self) -> &SslContextRef { &CTX }
    }
    impl SslAcceptorBuilder { pub fn build(self) -> SslAcceptor { SslAcceptor(()) } }
    /// the host name the connection will be verified against (None for a server-side Ssl)
    #[derive(Debug)] pub struct Ssl { pub verify_host: Option<String> }
    impl Ssl { pub fn new(_: &SslContextRef) -> Result<Ssl, ErrorStack> { Ok(Ssl { verify_host: None }) } }
    #[derive(Debug, Clone)] pub struct SslConnector(());
    #[derive(Debug)] pub struct SslConnectorBuilder(());
    impl SslConnector {
        pub fn model() -> SslConnector { SslConnector(()) }
        pub fn builder(_: SslMethod) -> Result<SslConnectorBuilder, ErrorStack> { Ok(SslConnectorBuilder(())) }
        pub fn configure(&self) -> Result<ConnectConfiguration, ErrorStack> { Ok(ConnectConfiguration(())) }
    }
    impl SslConnectorBuilder { pub fn build(self) -> SslConnector { SslConnector(()) } }
    #[derive(Debug)] pub struct ConnectConfiguration(());
    impl ConnectConfiguration { pub fn into_ssl(self, domain: &str) -> Result<Ssl, ErrorStack> { Ok(Ssl { verify_host: Some(domain.to_owned()) }) } }
}
