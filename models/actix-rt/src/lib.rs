//! Model of `actix-rt` as used by actix-server / actix-tls: virtual clock, recorded spawns, scripted
//! Arbiter/System lookups, type-check shells for net and signal.
use std::{future::Future, pin::Pin, task::{Context, Poll}};

pub mod time {
    use super::*;
    use std::{cell::Cell, time::Duration, ops::{Add, Sub}};
    thread_local! { pub static NOW_MS: Cell<u64> = const { Cell::new(0) }; }
    pub fn set_now_ms(v: u64) { NOW_MS.with(|c| c.set(v)) }
    pub fn now_ms() -> u64 { NOW_MS.with(|c| c.get()) }
    #[derive(Clone, Copy, PartialEq, Eq, PartialOrd, Ord, Debug)]
    pub struct Instant(pub u64);
    impl Instant { pub fn now() -> Instant { Instant(now_ms()) } pub fn elapsed(&self) -> Duration { Duration::from_millis(now_ms() - self.0) } }
    impl Add<Duration> for Instant { type Output = Instant; fn add(self, d: Duration) -> Instant { Instant(self.0 + d.as_millis() as u64) } }
    impl Sub<Instant> for Instant { type Output = Duration; fn sub(self, o: Instant) -> Duration { Duration::from_millis(self.0 - o.0) } }
    #[derive(Debug)]
    pub struct Sleep { pub deadline: Instant }
    pub fn sleep(d: Duration) -> Sleep { Sleep { deadline: Instant::now() + d } }
    impl Sleep { pub fn reset(mut self: Pin<&mut Self>, t: Instant) { self.deadline = t; } }
    impl Future for Sleep { type Output = (); fn poll(self: Pin<&mut Self>, _: &mut Context<'_>) -> Poll<()> { if Instant::now() >= self.deadline { Poll::Ready(()) } else { Poll::Pending } } }
}

pub struct JoinHandle<T>(std::marker::PhantomData<T>);
thread_local! { pub static TASKS: std::cell::RefCell<Vec<Pin<Box<dyn Future<Output = ()>>>>> = const { std::cell::RefCell::new(Vec::new()) }; }
pub fn spawn<F: Future + 'static>(f: F) -> JoinHandle<F::Output> {
    TASKS.with(|t| t.borrow_mut().push(Box::pin(async move { let _ = f.await; })));
    JoinHandle(std::marker::PhantomData)
}
thread_local! { pub static ARBITER_STOPS: std::cell::Cell<usize> = const { std::cell::Cell::new(0) }; }
#[derive(Clone, Debug)] pub struct ArbiterHandle;
impl ArbiterHandle { pub fn stop(&self) -> bool { ARBITER_STOPS.with(|c| c.set(c.get() + 1)); true } }
pub struct Arbiter;
impl Arbiter {
    pub fn try_current() -> Option<ArbiterHandle> { None }
    pub fn current() -> ArbiterHandle { ArbiterHandle }
    pub fn new() -> Arbiter { unimplemented!("model actix-rt: threads are outside the checks") }
    pub fn with_tokio_rt<F>(_f: F) -> Arbiter { unimplemented!("model actix-rt: threads are outside the checks") }
    pub fn spawn<Fut: Future<Output = ()> + Send + 'static>(&self, _f: Fut) -> bool { unimplemented!() }
}
#[derive(Clone, Debug)] pub struct System;
impl System { pub fn try_current() -> Option<System> { None } pub fn stop(&self) {} }

pub mod net {
    use std::io;
    #[derive(Debug)] pub struct TcpStream(pub usize);
    #[derive(Debug)] pub struct UnixStream(pub usize);
    impl TcpStream { pub fn from_std(s: std::net::TcpStream) -> io::Result<Self> { use std::os::unix::io::IntoRawFd; Ok(TcpStream(s.into_raw_fd() as usize)) } }
    impl UnixStream { pub fn from_std(s: std::os::unix::net::UnixStream) -> io::Result<Self> { use std::os::unix::io::IntoRawFd; Ok(UnixStream(s.into_raw_fd() as usize)) } }
}
pub mod signal {
    pub mod unix {
        use std::{io, task::{Context, Poll}};
        #[derive(Clone, Copy, Debug)] pub struct SignalKind(pub u8);
        impl SignalKind { pub fn interrupt() -> Self { SignalKind(2) } pub fn terminate() -> Self { SignalKind(15) } pub fn quit() -> Self { SignalKind(3) } }
        #[derive(Debug)] pub struct Signal { pub kind: SignalKind, pub fired: bool }
        impl Signal { pub fn poll_recv(&mut self, _: &mut Context<'_>) -> Poll<Option<()>> { if self.fired { self.fired = false; Poll::Ready(Some(())) } else { Poll::Pending } } }
        pub fn signal(kind: SignalKind) -> io::Result<Signal> { Ok(Signal { kind, fired: false }) }
    }
}
