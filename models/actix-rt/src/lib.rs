//! Model of `actix-rt` as used by actix-server / actix-tls: virtual clock, recorded spawns, scripted
//! Arbiter/System lookups, type-check shells for net and signal.
use std::{future::Future, pin::Pin, task::{Context, Poll}};

pub mod time {
    use super::*;
    use std::{cell::Cell, time::Duration, ops::{Add, Sub}};
    thread_local! { pub static NOW_MS: Cell<u64> = const { Cell::new(0) }; }
    pub fn set_now_ms(v: u64) { NOW_MS.with(|c| c.set(v)) }
    pub fn now_ms() -> u64 { NOW_MS.with(|c| c.get()) }
    #[derive(Clone, Copy, PartialEq, Eq, PartialOrd, Ord, Debug)]
    pub struct Instant(pub u64);
    impl Instant { pub fn now() -> Instant { Instant(now_ms()) } pub fn elapsed(&self) -> Duration { Duration::from_millis(now_ms() - self.0) } }
    impl Add<Duration> for Instant { type Output = Instant; fn add(self, d: Duration) -> Instant { Instant(self.0 + d.as_millis() as u64) } }
    impl Sub<Instant> for Instant { type Output = Duration; fn sub(self, o: Instant) -> Duration { Duration::from_millis(self.0 - o.0) } }
    #[derive(Debug)]
    pub struct Sleep { pub deadline: Instant }
    pub fn sleep(d: Duration) -> Sleep { Sleep { deadline: Instant::now() + d } }
    impl Sleep {
        pub fn reset(mut self: Pin<&mut Self>, t: Instant) { self.deadline = t; }
        pub fn is_elapsed(&self) -> bool { Instant::now() >= self.deadline }
        pub fn deadline(&self) -> Instant { self.deadline }
    }
    impl Future for Sleep { type Output = (); fn poll(self: Pin<&mut Self>, _: &mut Context<'_>) -> Poll<()> { if Instant::now() >= self.deadline { Poll::Ready(()) } else { Poll::Pending } } }
}

pub struct JoinHandle<T>(std::marker::PhantomData<T>);
thread_local! { pub static TASKS: std::cell::RefCell<Vec<Pin<Box<dyn Future<Output = ()>>>>> = const { std::cell::RefCell::new(Vec::new()) }; }
pub fn spawn<F: Future + 'static>(f: F) -> JoinHandle<F::Output> {
    TASKS.with(|t| t.borrow_mut().push(Box::pin(async move { let _ = f.await; })));
    JoinHandle(std::marker::PhantomData)
}
thread_local! { pub static ARBITER_STOPS: std::cell::Cell<usize> = const { std::cell::Cell::new(0) }; }
#[derive(Clone, Debug)] pub struct ArbiterHandle;
impl ArbiterHandle { pub fn stop(&self) -> bool { ARBITER_STOPS.with(|c| c.set(c.get() + 1)); true } }
pub struct Arbiter;
impl Arbiter {
    pub fn try_current() -> Option<ArbiterHandle> { None }
    pub fn current() -> ArbiterHandle { ArbiterHandle }
    pub fn new() -> Arbiter { unimplemented!("model actix-rt: threads are outside the checks") }
    pub fn with_tokio_rt<F>(_f: F) -> Arbiter { unimplemented!("model actix-rt: threads are outside the checks") }
    pub fn spawn<Fut: Future<Output = ()> + Send + 'static>(&self, _f: Fut) -> bool { unimplemented!() }
}
#[derive(Clone, Debug)] pub struct System;
thread_local! { pub static SYSTEM_PRESENT: std::cell::Cell<bool> = const { std::cell::Cell::new(false) }; pub static SYSTEM_STOPS: std::cell::Cell<usize> = const { std::cell::Cell::new(0) }; }
pub fn set_system_present(v: bool) { SYSTEM_PRESENT.with(|c| c.set(v)); SYSTEM_STOPS.with(|c| c.set(0)); }
pub fn system_stops() -> usize { SYSTEM_STOPS.with(|c| c.get()) }
impl System { pub fn try_current() -> Option<System> { if SYSTEM_PRESENT.with(|c| c.get()) { Some(System) } else { None } } pub fn stop(&self) { SYSTEM_STOPS.with(|c| c.set(c.get() + 1)); } }

pub mod net {
    //! Opaque streams (an identifier), scripted TCP connects (actix-tls connector) and the `ActixStream` trait.
    use std::{future::Future, io, net::SocketAddr, pin::Pin, task::{Context, Poll}};
    pub use tokio::io::{AsyncRead, AsyncWrite, ReadBuf};
    #[derive(Debug)] pub struct Ready;
    #[derive(Debug)] pub struct TcpStream(pub usize);
    #[derive(Debug)] pub struct UnixStream(pub usize);
    impl TcpStream {
        pub fn from_std(s: std::net::TcpStream) -> io::Result<Self> { use std::os::unix::io::IntoRawFd; Ok(TcpStream(s.into_raw_fd() as usize)) }
        pub fn connect(addr: SocketAddr) -> ConnectFut { dial(addr, None) }
        pub fn peer_addr(&self) -> io::Result<SocketAddr> { Ok(SocketAddr::from(([127, 0, 0, 1], self.0 as u16))) }
    }
    impl UnixStream { pub fn from_std(s: std::os::unix::net::UnixStream) -> io::Result<Self> { use std::os::unix::io::IntoRawFd; Ok(UnixStream(s.into_raw_fd() as usize)) } }
    /// script: outcome per dialled address, consumed in dial order; every dial is logged with the local bind address
    #[derive(Clone, Copy, Debug)] pub struct Outcome { pub pend: u8, pub ok: bool, pub err_id: i32 }
    pub struct Env { pub script: Vec<Outcome>, pub next: usize, pub dialled: Vec<(SocketAddr, Option<SocketAddr>)> }
    pub static mut ENV: Env = Env { script: Vec::new(), next: 0, dialled: Vec::new() };
    pub struct ConnectFut { addr: SocketAddr, o: Outcome }
    impl Future for ConnectFut {
        type Output = io::Result<TcpStream>;
        fn poll(mut self: Pin<&mut Self>, _: &mut Context<'_>) -> Poll<Self::Output> {
            if self.o.pend > 0 { self.o.pend -= 1; return Poll::Pending; }
            if self.o.ok { Poll::Ready(Ok(TcpStream(self.addr.port() as usize))) } else { Poll::Ready(Err(io::Error::from_raw_os_error(self.o.err_id))) }
        }
    }
    fn dial(addr: SocketAddr, bound: Option<SocketAddr>) -> ConnectFut {
        #[allow(static_mut_refs)]
        let o = unsafe {
            let e = &mut ENV; e.dialled.push((addr, bound));
            if e.next < e.script.len() { e.next += 1; e.script[e.next - 1] } else { Outcome { pend: 0, ok: false, err_id: 111 } }
        };
        ConnectFut { addr, o }
    }
    pub struct TcpSocket { v6: bool, bound: std::cell::Cell<Option<SocketAddr>> }
    impl TcpSocket {
        pub fn new_v4() -> io::Result<TcpSocket> { Ok(TcpSocket { v6: false, bound: std::cell::Cell::new(None) }) }
        pub fn new_v6() -> io::Result<TcpSocket> { Ok(TcpSocket { v6: true, bound: std::cell::Cell::new(None) }) }
        pub fn bind(&self, a: SocketAddr) -> io::Result<()> { if a.is_ipv6() != self.v6 { return Err(io::ErrorKind::InvalidInput.into()); } self.bound.set(Some(a)); Ok(()) }
        pub fn connect(self, addr: SocketAddr) -> ConnectFut { dial(addr, self.bound.get()) }
    }
    macro_rules! io_impl { ($t:ty) => {
        impl AsyncRead for $t { fn poll_read(self: Pin<&mut Self>, _: &mut Context<'_>, _: &mut ReadBuf<'_>) -> Poll<io::Result<()>> { Poll::Ready(Ok(())) } }
        impl AsyncWrite for $t {
            fn poll_write(self: Pin<&mut Self>, _: &mut Context<'_>, b: &[u8]) -> Poll<io::Result<usize>> { Poll::Ready(Ok(b.len())) }
            fn poll_flush(self: Pin<&mut Self>, _: &mut Context<'_>) -> Poll<io::Result<()>> { Poll::Ready(Ok(())) }
            fn poll_shutdown(self: Pin<&mut Self>, _: &mut Context<'_>) -> Poll<io::Result<()>> { Poll::Ready(Ok(())) }
        }
        impl ActixStream for $t {
            fn poll_read_ready(&self, _: &mut Context<'_>) -> Poll<io::Result<Ready>> { Poll::Ready(Ok(Ready)) }
            fn poll_write_ready(&self, _: &mut Context<'_>) -> Poll<io::Result<Ready>> { Poll::Ready(Ok(Ready)) }
        }
    } }
    pub trait ActixStream: AsyncRead + AsyncWrite + Unpin {
        fn poll_read_ready(&self, cx: &mut Context<'_>) -> Poll<io::Result<Ready>>;
        fn poll_write_ready(&self, cx: &mut Context<'_>) -> Poll<io::Result<Ready>>;
    }
    io_impl!(TcpStream); io_impl!(UnixStream);
}
pub mod task {
    use std::{future::Future, io, pin::Pin, task::{Context, Poll}};
    #[derive(Debug)] pub struct JoinError;
    impl From<JoinError> for io::Error { fn from(_: JoinError) -> io::Error { io::Error::from_raw_os_error(4) } }
    pub struct JoinHandle<T>(pub Option<T>);
    impl<T: Unpin> Future for JoinHandle<T> { type Output = Result<T, JoinError>; fn poll(mut self: Pin<&mut Self>, _: &mut Context<'_>) -> Poll<Self::Output> { Poll::Ready(Ok(self.0.take().unwrap())) } }
    /// model: the blocking closure is run inline (the default DNS lookup behind it is outside what the checks decide)
    pub fn spawn_blocking<F: FnOnce() -> R, R>(f: F) -> JoinHandle<R> { JoinHandle(Some(f())) }
}
pub mod signal {
    pub mod unix {
        use std::{io, task::{Context, Poll}};
        #[derive(Clone, Copy, Debug)] pub struct SignalKind(pub u8);
        impl SignalKind { pub fn interrupt() -> Self { SignalKind(2) } pub fn terminate() -> Self { SignalKind(15) } pub fn quit() -> Self { SignalKind(3) } }
        #[derive(Debug)] pub struct Signal { pub kind: SignalKind, pub fired: bool }
        thread_local! { pub static PENDING: std::cell::Cell<u8> = const { std::cell::Cell::new(0) }; }
        /// scripted delivery: the signal number that the next poll of the matching stream reports (0 = none)
        pub fn set_pending(sig: u8) { PENDING.with(|c| c.set(sig)); }
        pub fn clear_pending() { PENDING.with(|c| c.set(0)); }
        impl Signal { pub fn poll_recv(&mut self, _: &mut Context<'_>) -> Poll<Option<()>> {
            if self.fired { self.fired = false; return Poll::Ready(Some(())); }
            if PENDING.with(|c| c.get()) == self.kind.0 { clear_pending(); return Poll::Ready(Some(())); }
            Poll::Pending } }
        pub fn signal(kind: SignalKind) -> io::Result<Signal> { Ok(Signal { kind, fired: false }) }
    }
}
