//! Type-check shell of `socket2` (binding real sockets is outside what the checks cover).
use std::{io, net::SocketAddr};
pub struct Socket(());
#[derive(Clone, Copy)] pub struct Domain(());
#[derive(Clone, Copy)] pub struct Type(());
#[derive(Clone, Copy)] pub struct Protocol(());
pub struct SockAddr(());
impl From<SocketAddr> for SockAddr { fn from(_: SocketAddr) -> Self { SockAddr(()) } }
impl Domain { pub fn for_address(_: SocketAddr) -> Domain { Domain(()) } pub const IPV4: Domain = Domain(()); pub const IPV6: Domain = Domain(()); }
impl Type { pub const STREAM: Type = Type(()); }
impl Protocol { pub const TCP: Protocol = Protocol(()); pub const MPTCP: Protocol = Protocol(()); }
impl Socket {
    pub fn new(_: Domain, _: Type, _: Option<Protocol>) -> io::Result<Socket> { Err(io::ErrorKind::Unsupported.into()) }
    pub fn set_reuse_address(&self, _: bool) -> io::Result<()> { Ok(()) }
    pub fn set_nonblocking(&self, _: bool) -> io::Result<()> { Ok(()) }
    pub fn bind(&self, _: &SockAddr) -> io::Result<()> { Ok(()) }
    pub fn listen(&self, _: i32) -> io::Result<()> { Ok(()) }
}
impl From<Socket> for std::net::TcpListener { fn from(_: Socket) -> Self { unimplemented!("model socket2") } }
