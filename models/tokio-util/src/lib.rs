//! Model of `tokio_util::{codec::{Decoder, Encoder}, io::poll_read_buf}`.
pub mod codec {
    use bytes::BytesMut;
    use std::io;
    pub trait Decoder {
        type Item;
        type Error: From<io::Error>;
        fn decode(&mut self, src: &mut BytesMut) -> Result<Option<Self::Item>, Self::Error>;
        fn decode_eof(&mut self, buf: &mut BytesMut) -> Result<Option<Self::Item>, Self::Error> {
            match self.decode(buf)? {
                Some(frame) => Ok(Some(frame)),
                None => if buf.is_empty() { Ok(None) } else { Err(io::Error::new(io::ErrorKind::Other, "bytes remaining on stream").into()) },
            }
        }
    }
    pub trait Encoder<Item> {
        type Error: From<io::Error>;
        fn encode(&mut self, item: Item, dst: &mut BytesMut) -> Result<(), Self::Error>;
    }
}
pub mod io {
    use bytes::BytesMut;
    use std::{io, pin::Pin, task::{Context, Poll}};
    use tokio::io::{AsyncRead, ReadBuf};
    pub fn poll_read_buf<T: AsyncRead + ?Sized>(io: Pin<&mut T>, cx: &mut Context<'_>, buf: &mut BytesMut) -> Poll<io::Result<usize>> {
        let room = buf.capacity() - buf.len();
        if room == 0 { return Poll::Ready(Ok(0)); }
        let mut tmp = [0u8; bytes::CAP];
        let lim = if room < bytes::CAP { room } else { bytes::CAP };
        let mut rb = ReadBuf::new(&mut tmp[..lim]);
        match io.poll_read(cx, &mut rb) { Poll::Pending => return Poll::Pending, Poll::Ready(Err(e)) => return Poll::Ready(Err(e)), Poll::Ready(Ok(())) => {} }
        let n = rb.filled().len();
        buf.extend_from_slice(&tmp[..n]);
        Poll::Ready(Ok(n))
    }
}
pub mod sync {
    //! `ReusableBoxFuture`: a boxed future that can be replaced (the allocation reuse of the real type is not modelled).
    use std::{future::Future, pin::Pin, task::{Context, Poll}};
    pub struct ReusableBoxFuture<'a, T> { boxed: Pin<Box<dyn Future<Output = T> + Send + 'a>> }
    impl<'a, T> ReusableBoxFuture<'a, T> {
        pub fn new<F: Future<Output = T> + Send + 'a>(future: F) -> Self { Self { boxed: Box::pin(future) } }
        pub fn set<F: Future<Output = T> + Send + 'a>(&mut self, future: F) { self.boxed = Box::pin(future); }
        pub fn poll(&mut self, cx: &mut Context<'_>) -> Poll<T> { self.boxed.as_mut().poll(cx) }
    }
}
