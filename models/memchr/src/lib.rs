//! Model of the `memchr` crate: first index of `needle` in `haystack`.
#![no_std]
pub fn memchr(needle: u8, haystack: &[u8]) -> Option<usize> {
    let mut i = 0;
    while i < haystack.len() {
        if haystack[i] == needle { return Some(i); }
        i += 1;
    }
    None
}
