//! Model of tokio-rustls 0.26 (type-check shell + scripted handshakes). The handshake futures follow a script:
//! `Pending^k` then `Ok` | `Err`; connectors record the server name they are asked to verify. Everything inside a real
//! TLS library (crypto, certificate validation, record layer) is outside what the checks decide.
use std::{future::Future, io, pin::Pin, sync::Arc, task::{Context, Poll}};
use tokio::io::{AsyncRead, AsyncWrite, ReadBuf};
pub mod rustls {
    #[derive(Debug)] pub struct ServerConfig;
    #[derive(Debug)] pub struct ClientConfig;
    #[derive(Debug)] pub struct ServerConnection;
    #[derive(Debug)] pub struct ClientConnection;
    pub mod pki_types { pub use rustls_pki_types::*; }
}
/// handshake scripts, one slot per accept()/connect() call, filled by the harness
#[derive(Clone, Copy, Debug)] pub struct Hs { pub pend: u8, pub ok: bool }
pub static mut HS: [Hs; 8] = [Hs { pend: 0, ok: true }; 8];
pub static mut HS_NEXT: usize = 0;
pub static mut NAMES: Vec<String> = Vec::new();
fn step(k: usize) -> Poll<io::Result<()>> {
    #[allow(static_mut_refs)]
    unsafe { if HS[k].pend > 0 { HS[k].pend -= 1; Poll::Pending } else if HS[k].ok { Poll::Ready(Ok(())) } else { Poll::Ready(Err(io::Error::from_raw_os_error(5))) } }
}
fn next_slot() -> usize { unsafe { let k = HS_NEXT; HS_NEXT += 1; k } }

#[derive(Clone)] pub struct TlsAcceptor { _c: Arc<rustls::ServerConfig> }
impl From<Arc<rustls::ServerConfig>> for TlsAcceptor { fn from(c: Arc<rustls::ServerConfig>) -> Self { TlsAcceptor { _c: c } } }
impl TlsAcceptor { pub fn accept<IO: AsyncRead + AsyncWrite + Unpin>(&self, io: IO) -> Accept<IO> { Accept { io: Some(io), k: next_slot() } } }
pub struct Accept<IO> { io: Option<IO>, k: usize }
impl<IO: AsyncRead + AsyncWrite + Unpin> Future for Accept<IO> {
    type Output = io::Result<server::TlsStream<IO>>;
    fn poll(mut self: Pin<&mut Self>, _: &mut Context<'_>) -> Poll<Self::Output> {
        assert!(self.io.is_some(), "handshake polled after completion");
        match step(self.k) {
            Poll::Pending => Poll::Pending,
            Poll::Ready(Ok(())) => Poll::Ready(Ok(server::TlsStream { io: self.io.take().unwrap(), conn: rustls::ServerConnection })),
            Poll::Ready(Err(e)) => Poll::Ready(Err(e)),
        }
    }
}
#[derive(Clone)] pub struct TlsConnector { _c: Arc<rustls::ClientConfig> }
impl From<Arc<rustls::ClientConfig>> for TlsConnector { fn from(c: Arc<rustls::ClientConfig>) -> Self { TlsConnector { _c: c } } }
impl TlsConnector {
    pub fn connect<IO: AsyncRead + AsyncWrite + Unpin>(&self, name: rustls_pki_types::ServerName<'static>, io: IO) -> Connect<IO> {
        #[allow(static_mut_refs)] unsafe { NAMES.push(format!("{:?}", name)); }
        Connect { io: Some(io), k: next_slot() }
    }
}
pub struct Connect<IO> { io: Option<IO>, k: usize }
impl<IO: AsyncRead + AsyncWrite + Unpin> Future for Connect<IO> {
    type Output = io::Result<client::TlsStream<IO>>;
    fn poll(mut self: Pin<&mut Self>, _: &mut Context<'_>) -> Poll<Self::Output> {
        assert!(self.io.is_some(), "handshake polled after completion");
        match step(self.k) {
            Poll::Pending => Poll::Pending,
            Poll::Ready(Ok(())) => Poll::Ready(Ok(client::TlsStream { io: self.io.take().unwrap(), conn: rustls::ClientConnection })),
            Poll::Ready(Err(e)) => Poll::Ready(Err(e)),
        }
    }
}
macro_rules! stream { ($m:ident, $conn:ident) => {
    pub mod $m {
        use super::*;
        #[derive(Debug)] pub struct TlsStream<IO> { pub(crate) io: IO, pub(crate) conn: rustls::$conn }
        impl<IO> TlsStream<IO> { pub fn get_ref(&self) -> (&IO, &rustls::$conn) { (&self.io, &self.conn) } pub fn get_mut(&mut self) -> (&mut IO, &mut rustls::$conn) { (&mut self.io, &mut self.conn) } }
        impl<IO: AsyncRead + Unpin> AsyncRead for TlsStream<IO> { fn poll_read(mut self: Pin<&mut Self>, cx: &mut Context<'_>, b: &mut ReadBuf<'_>) -> Poll<io::Result<()>> { Pin::new(&mut self.io).poll_read(cx, b) } }
        impl<IO: AsyncWrite + Unpin> AsyncWrite for TlsStream<IO> {
            fn poll_write(mut self: Pin<&mut Self>, cx: &mut Context<'_>, b: &[u8]) -> Poll<io::Result<usize>> { Pin::new(&mut self.io).poll_write(cx, b) }
            fn poll_flush(mut self: Pin<&mut Self>, cx: &mut Context<'_>) -> Poll<io::Result<()>> { Pin::new(&mut self.io).poll_flush(cx) }
            fn poll_shutdown(mut self: Pin<&mut Self>, cx: &mut Context<'_>) -> Poll<io::Result<()>> { Pin::new(&mut self.io).poll_shutdown(cx) }
            fn poll_write_vectored(mut self: Pin<&mut Self>, cx: &mut Context<'_>, b: &[io::IoSlice<'_>]) -> Poll<io::Result<usize>> { Pin::new(&mut self.io).poll_write_vectored(cx, b) }
            fn is_write_vectored(&self) -> bool { self.io.is_write_vectored() }
        }
    }
} }
stream!(server, ServerConnection); stream!(client, ClientConnection);
