//! Model of `bytes`: value semantics, inline bounded storage (no heap, no pointer tagging).
use core::ops::Deref;
/// default: 8 bytes with contents. Feature `lenonly`: 9000 bytes, lengths are exact but CONTENTS ARE NOT MAINTAINED
/// (used only for the 1 KiB / 8 KiB mark harnesses, where only lengths matter).
#[cfg(not(feature = "lenonly"))] pub const CAP: usize = 8;
#[cfg(feature = "lenonly")] pub const CAP: usize = 9000;

#[derive(Clone, Debug)]
pub struct BytesMut { buf: [u8; CAP], len: usize, cap: usize }
#[derive(Clone, Debug)]
pub struct Bytes { buf: [u8; CAP], len: usize }

fn bound(n: usize) { #[cfg(kani)] kani::assume(n <= CAP); #[cfg(not(kani))] assert!(n <= CAP, "model bound"); }

impl BytesMut {
    pub fn new() -> Self { BytesMut { buf: [0; CAP], len: 0, cap: 0 } }
    pub fn with_capacity(cap: usize) -> Self { BytesMut { buf: [0; CAP], len: 0, cap } }
    pub fn len(&self) -> usize { self.len }
    pub fn is_empty(&self) -> bool { self.len == 0 }
    pub fn capacity(&self) -> usize { self.cap }
    pub fn reserve(&mut self, additional: usize) { if self.cap - self.len < additional { self.cap = self.len + additional; } }
    pub fn split_to(&mut self, at: usize) -> BytesMut {
        assert!(at <= self.len, "split_to out of bounds");
        let mut head = BytesMut { buf: [0; CAP], len: at, cap: at };
        #[cfg(not(feature = "lenonly"))] { let mut i = 0; while i < CAP { if i < at { head.buf[i] = self.buf[i]; } i += 1; } }
        self.shift(at);
        head
    }
    fn shift(&mut self, at: usize) {
        #[cfg(not(feature = "lenonly"))] { let mut i = 0; while i < CAP { self.buf[i] = if i + at < CAP { self.buf[i + at] } else { 0 }; i += 1; } }
        self.len -= at; self.cap -= at;
    }
    /// model-only: a buffer of `len` unspecified bytes (lenonly configuration)
    pub fn model_with_len(len: usize, cap: usize) -> Self { bound(len); BytesMut { buf: [0; CAP], len, cap: if cap < len { len } else { cap } } }
    pub fn split(&mut self) -> BytesMut { let n = self.len; self.split_to(n) }
    pub fn truncate(&mut self, len: usize) { if len < self.len { self.len = len; } }
    pub fn clear(&mut self) { self.len = 0; }
    pub fn freeze(self) -> Bytes { Bytes { buf: self.buf, len: self.len } }
    pub fn extend_from_slice(&mut self, s: &[u8]) {
        bound(self.len + s.len());
        self.reserve(s.len());
        #[cfg(not(feature = "lenonly"))] { let mut i = 0; while i < s.len() { self.buf[self.len + i] = s[i]; i += 1; } }
        self.len += s.len();
    }
}
impl Default for BytesMut { fn default() -> Self { Self::new() } }
impl Deref for BytesMut { type Target = [u8]; fn deref(&self) -> &[u8] { &self.buf[..self.len] } }
impl AsRef<[u8]> for BytesMut { fn as_ref(&self) -> &[u8] { self } }
impl From<&str> for BytesMut { fn from(s: &str) -> Self { let mut b = BytesMut::new(); b.extend_from_slice(s.as_bytes()); b } }
impl Deref for Bytes { type Target = [u8]; fn deref(&self) -> &[u8] { &self.buf[..self.len] } }
impl Bytes {
    pub fn len(&self) -> usize { self.len }
    /// inherent (shadows `<[u8]>::to_vec`): fixed-capacity allocation, symbolic length
    pub fn to_vec(&self) -> Vec<u8> { let mut v = Vec::with_capacity(CAP); let mut i = 0; while i < self.len { v.push(self.buf[i]); i += 1; } v }
    pub fn copy_from_slice(s: &[u8]) -> Bytes { let mut b = BytesMut::new(); b.extend_from_slice(s); b.freeze() }
}

pub trait Buf {
    fn remaining(&self) -> usize;
    fn chunk(&self) -> &[u8];
    fn advance(&mut self, cnt: usize);
}
impl Buf for BytesMut {
    fn remaining(&self) -> usize { self.len }
    fn chunk(&self) -> &[u8] { self }
    fn advance(&mut self, cnt: usize) { assert!(cnt <= self.len, "cannot advance past `remaining`"); self.shift(cnt) }
}
impl Buf for Bytes {
    fn remaining(&self) -> usize { self.len }
    fn chunk(&self) -> &[u8] { self }
    fn advance(&mut self, cnt: usize) { assert!(cnt <= self.len); let mut i = 0; while i < CAP { self.buf[i] = if i + cnt < CAP { self.buf[i + cnt] } else { 0 }; i += 1; } self.len -= cnt; }
}
pub trait BufMut {
    fn remaining_mut(&self) -> usize;
    fn has_remaining_mut(&self) -> bool { self.remaining_mut() > 0 }
    fn put_slice(&mut self, src: &[u8]);
    fn put_u8(&mut self, n: u8) { self.put_slice(&[n]) }
}
impl BufMut for BytesMut {
    fn remaining_mut(&self) -> usize { usize::MAX - self.len }
    fn put_slice(&mut self, src: &[u8]) { self.extend_from_slice(src) }
}
