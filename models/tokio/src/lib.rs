//! Model of the parts of `tokio` used by actix-server: FIFO unbounded mpsc, oneshot.
pub mod sync {
    pub mod mpsc {
        use std::{cell::UnsafeCell, collections::VecDeque, sync::Arc, task::{Context, Poll}};
        pub mod error { #[derive(Debug)] pub struct SendError<T>(pub T); }
        struct Chan<T> { q: UnsafeCell<VecDeque<T>>, rx_alive: UnsafeCell<bool>, senders: UnsafeCell<usize> }
        unsafe impl<T: Send> Send for Chan<T> {}
        unsafe impl<T: Send> Sync for Chan<T> {}
        pub struct UnboundedSender<T> { c: Arc<Chan<T>> }
        pub struct UnboundedReceiver<T> { c: Arc<Chan<T>> }
        impl<T> std::fmt::Debug for UnboundedSender<T> { fn fmt(&self, _: &mut std::fmt::Formatter<'_>) -> std::fmt::Result { Ok(()) } }
        impl<T> std::fmt::Debug for UnboundedReceiver<T> { fn fmt(&self, _: &mut std::fmt::Formatter<'_>) -> std::fmt::Result { Ok(()) } }
        pub fn unbounded_channel<T>() -> (UnboundedSender<T>, UnboundedReceiver<T>) {
            let c = Arc::new(Chan { q: UnsafeCell::new(VecDeque::with_capacity(8)), rx_alive: UnsafeCell::new(true), senders: UnsafeCell::new(1) });
            (UnboundedSender { c: c.clone() }, UnboundedReceiver { c })
        }
        impl<T> Clone for UnboundedSender<T> { fn clone(&self) -> Self { unsafe { *self.c.senders.get() += 1; } Self { c: self.c.clone() } } }
        impl<T> Drop for UnboundedSender<T> { fn drop(&mut self) { unsafe { *self.c.senders.get() -= 1; } } }
        impl<T> UnboundedSender<T> {
            pub fn send(&self, v: T) -> Result<(), error::SendError<T>> {
                unsafe {
                    if !*self.c.rx_alive.get() { return Err(error::SendError(v)); }
                    (*self.c.q.get()).push_back(v);
                }
                Ok(())
            }
        }
        impl<T> UnboundedReceiver<T> {
            pub fn poll_recv(&mut self, _cx: &mut Context<'_>) -> Poll<Option<T>> {
                unsafe {
                    match (*self.c.q.get()).pop_front() {
                        Some(v) => Poll::Ready(Some(v)),
                        None => if *self.c.senders.get() == 0 { Poll::Ready(None) } else { Poll::Pending },
                    }
                }
            }
            pub fn len(&self) -> usize { unsafe { (*self.c.q.get()).len() } }
            /// model-only: observe the queued items without receiving them
            pub fn peek_ids<R>(&self, f: impl Fn(&T) -> R) -> Vec<R> { unsafe { (*self.c.q.get()).iter().map(|x| f(x)).collect() } }
            /// model-only: what dropping the receiver does (the worker is gone), without giving up the handle
            pub fn close_and_clear(&mut self) { unsafe { *self.c.rx_alive.get() = false; (*self.c.q.get()).clear(); } }
        }
        impl<T> Drop for UnboundedReceiver<T> { fn drop(&mut self) { unsafe { *self.c.rx_alive.get() = false; (*self.c.q.get()).clear(); } } }
    }
    pub mod oneshot {
        use std::{cell::UnsafeCell, sync::Arc, future::Future, pin::Pin, task::{Context, Poll}};
        pub mod error { #[derive(Debug)] pub struct RecvError(pub ()); }
        struct Slot<T> { v: UnsafeCell<Option<T>>, tx_alive: UnsafeCell<bool>, rx_alive: UnsafeCell<bool> }
        unsafe impl<T: Send> Send for Slot<T> {}
        unsafe impl<T: Send> Sync for Slot<T> {}
        pub struct Sender<T> { s: Arc<Slot<T>> }
        pub struct Receiver<T> { s: Arc<Slot<T>> }
        impl<T> std::fmt::Debug for Sender<T> { fn fmt(&self, _: &mut std::fmt::Formatter<'_>) -> std::fmt::Result { Ok(()) } }
        impl<T> std::fmt::Debug for Receiver<T> { fn fmt(&self, _: &mut std::fmt::Formatter<'_>) -> std::fmt::Result { Ok(()) } }
        pub fn channel<T>() -> (Sender<T>, Receiver<T>) {
            let s = Arc::new(Slot { v: UnsafeCell::new(None), tx_alive: UnsafeCell::new(true), rx_alive: UnsafeCell::new(true) });
            (Sender { s: s.clone() }, Receiver { s })
        }
        impl<T> Sender<T> { pub fn send(self, v: T) -> Result<(), T> { unsafe { if !*self.s.rx_alive.get() { return Err(v); } *self.s.v.get() = Some(v); } Ok(()) } }
        impl<T> Drop for Sender<T> { fn drop(&mut self) { unsafe { *self.s.tx_alive.get() = false; } } }
        impl<T> Drop for Receiver<T> { fn drop(&mut self) { unsafe { *self.s.rx_alive.get() = false; } } }
        impl<T> Future for Receiver<T> {
            type Output = Result<T, error::RecvError>;
            fn poll(self: Pin<&mut Self>, _: &mut Context<'_>) -> Poll<Self::Output> {
                unsafe {
                    if let Some(v) = (*self.s.v.get()).take() { return Poll::Ready(Ok(v)); }
                    if !*self.s.tx_alive.get() { return Poll::Ready(Err(error::RecvError(()))); }
                }
                Poll::Pending
            }
        }
    }
}
pub mod runtime {
    use std::future::Future;
    #[derive(Clone)] pub struct Handle;
    pub struct TryCurrentError;
    impl Handle { pub fn try_current() -> Result<Handle, TryCurrentError> { Ok(Handle) } pub fn block_on<F: Future>(&self, _f: F) -> F::Output { unimplemented!() } }
    pub struct Builder;
    impl Builder {
        pub fn new_current_thread() -> Builder { Builder }
        pub fn enable_all(&mut self) -> &mut Self { self }
        pub fn max_blocking_threads(&mut self, _: usize) -> &mut Self { self }
        pub fn build(&mut self) -> std::io::Result<Runtime> { Ok(Runtime) }
    }
    pub struct Runtime;
    impl Runtime { pub fn block_on<F: Future>(&self, _f: F) -> F::Output { unimplemented!() } }
}
pub mod task {
    use std::future::Future;
    pub struct LocalSet;
    impl LocalSet { pub fn new() -> Self { LocalSet } pub async fn run_until<F: Future>(&self, f: F) -> F::Output { f.await } }
}

/// Model of the `tokio::io` traits used by actix-codec / actix-tls (verbatim signatures, no behaviour of their own).
pub mod io {
    use std::{io, pin::Pin, task::{Context, Poll}};
    pub struct ReadBuf<'a> { buf: &'a mut [u8], filled: usize }
    impl<'a> ReadBuf<'a> {
        pub fn new(buf: &'a mut [u8]) -> Self { ReadBuf { buf, filled: 0 } }
        pub fn filled(&self) -> &[u8] { &self.buf[..self.filled] }
        pub fn remaining(&self) -> usize { self.buf.len() - self.filled }
        pub fn put_slice(&mut self, s: &[u8]) { assert!(s.len() <= self.remaining()); let mut i = 0; while i < s.len() { self.buf[self.filled + i] = s[i]; i += 1; } self.filled += s.len(); }
    }
    pub trait AsyncRead { fn poll_read(self: Pin<&mut Self>, cx: &mut Context<'_>, buf: &mut ReadBuf<'_>) -> Poll<io::Result<()>>; }
    pub trait AsyncWrite {
        fn poll_write(self: Pin<&mut Self>, cx: &mut Context<'_>, buf: &[u8]) -> Poll<io::Result<usize>>;
        fn poll_flush(self: Pin<&mut Self>, cx: &mut Context<'_>) -> Poll<io::Result<()>>;
        fn poll_shutdown(self: Pin<&mut Self>, cx: &mut Context<'_>) -> Poll<io::Result<()>>;
        fn poll_write_vectored(self: Pin<&mut Self>, cx: &mut Context<'_>, bufs: &[io::IoSlice<'_>]) -> Poll<io::Result<usize>> {
            let buf = bufs.iter().find(|b| !b.is_empty()).map_or(&[][..], |b| &**b);
            self.poll_write(cx, buf)
        }
        fn is_write_vectored(&self) -> bool { false }
    }
    pub struct Interest;
}
