//! Model of `tracing`: every logging macro is a no-op that does not evaluate its arguments.
#[macro_export] macro_rules! trace { ($($t:tt)*) => {{}}; }
#[macro_export] macro_rules! debug { ($($t:tt)*) => {{}}; }
#[macro_export] macro_rules! info { ($($t:tt)*) => {{}}; }
#[macro_export] macro_rules! warn { ($($t:tt)*) => {{}}; }
#[macro_export] macro_rules! error { ($($t:tt)*) => {{}}; }
